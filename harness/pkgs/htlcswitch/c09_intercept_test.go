//go:build verif

package htlcswitch

// C09, the interceptor path: a forward that is routed through the
// InterceptableSwitch (what every real link does: server.go gives the links
// interceptableSwitch.ForwardPackets) and possibly held, resumed, resumed
// with MODIFIED amounts / wire records, failed, settled, released by a
// disconnecting interceptor or auto-failed.
//
// Real code: InterceptableSwitch (run loop, heldHtlcSet, interceptedForward
// incl. ResumeModified), Switch.ForwardPackets -> circuit map -> htlcForwarder
// -> handlePacketAdd, channelLink.CheckHtlcForward (the outgoing links are
// mock links whose policy check delegates to a real channelLink configured
// with the generated policy, as in c09_switch_test.go), failAddPacket and the
// mail orchestrator.
//
// Observation points (both synchronous, no waits): the outgoing link's
// handleSwitchPacket (the update_add_htlc that would be put on the wire) and
// the incoming link's mailbox (what comes back to the incoming link).
//
// Oracle:
//   * a model of the interception state machine written from the doc comments
//     of InterceptableSwitch / FwdResolution / heldHtlcSet (who is offered to
//     the interceptor, who is held, released, auto-failed, and with which
//     BOLT-4 code), and
//   * for every HTLC that reaches the Switch: bigref (exact math/big) over the
//     ACTUAL amounts - incoming amount as the node accounts it (the
//     interceptor's InAmountMsat if given: "the value of the inbound HTLC
//     should be interpreted differently ... during further validation"),
//     outgoing amount really handed to the outgoing link (the interceptor's
//     OutAmountMsat if given) - the expiries, the height at the moment of the
//     decision and the outgoing policy:
//         handed to the outgoing link  =>  V == {}
//         failed back by the Switch    =>  V != {} and the failure names a
//                                          rule in V
//   * differential: the same effective packet (same amounts, expiries,
//     records) sent through the plain Switch must get the same verdict and
//     the same failure.

import (
	"bytes"
	"crypto/sha256"
	"errors"
	"fmt"
	"math"
	"math/big"
	"path/filepath"
	"reflect"
	"sort"
	"strings"
	"sync"
	"sync/atomic"
	"testing"

	"github.com/lightningnetwork/lnd/chainntnfs"
	"github.com/lightningnetwork/lnd/channeldb"
	"github.com/lightningnetwork/lnd/fn/v2"
	"github.com/lightningnetwork/lnd/graph/db/models"
	"github.com/lightningnetwork/lnd/internal/verif/bigref"
	"github.com/lightningnetwork/lnd/internal/verif/vstats"
	"github.com/lightningnetwork/lnd/lntest/mock"
	"github.com/lightningnetwork/lnd/lntypes"
	"github.com/lightningnetwork/lnd/lnwire"
	"go.etcd.io/bbolt"
	"pgregory.net/rapid"
)

const (
	// c09iMaxHeight bounds the block height of this test: the
	// InterceptableSwitch receives heights as int32 block epochs, and
	// height plus a local delta must not wrap (see c09MaxHeight).
	c09iMaxHeight = uint32(math.MaxInt32) - (uint32(1) << 17)

	c09iSlots    = 3
	c09iMaxSteps = 6
)

// ---------------------------------------------------------------------------
// Observation points

// c09iMailbox replaces the incoming link's mailbox: everything the Switch or
// the InterceptableSwitch sends back to the incoming link is recorded at the
// moment it is delivered.
type c09iMailbox struct {
	MailBox

	mu   sync.Mutex
	pkts []*htlcPacket
}

func (m *c09iMailbox) AddPacket(pkt *htlcPacket) error {
	m.mu.Lock()
	m.pkts = append(m.pkts, pkt)
	m.mu.Unlock()

	return nil
}

func (m *c09iMailbox) take() []*htlcPacket {
	m.mu.Lock()
	defer m.mu.Unlock()
	out := m.pkts
	m.pkts = nil

	return out
}

// c09iHanded is a snapshot of a packet at the moment it is handed to the
// outgoing link.
type c09iHanded struct {
	key        CircuitKey
	slot       int
	wireAmt    lnwire.MilliSatoshi // update_add_htlc.amount_msat
	wireExpiry uint32              // update_add_htlc.cltv_expiry
	wireRecs   lnwire.CustomRecords
	pktAmt     lnwire.MilliSatoshi
	pktInAmt   lnwire.MilliSatoshi
	pktOutExp  uint32
	pktInExp   uint32
	outChan    lnwire.ShortChannelID
	circIn     lnwire.MilliSatoshi
	circOut    lnwire.MilliSatoshi
	hasCircuit bool
}

// c09iCall records the arguments of one CheckHtlcForward call (diagnostics).
type c09iCall struct {
	in, out lnwire.MilliSatoshi
	inExp   uint32
	outExp  uint32
	height  uint32
}

// c09iOutLink is an outgoing link: lnd's mockChannelLink whose policy check
// is the real channelLink.CheckHtlcForward with the slot's generated policy.
type c09iOutLink struct {
	*mockChannelLink

	fx   *c09Fixture
	slot int

	mu     sync.Mutex
	cs     *c09Case
	handed []c09iHanded
	calls  []c09iCall
}

func (l *c09iOutLink) CheckHtlcForward(payHash [32]byte, incomingAmt,
	amtToForward lnwire.MilliSatoshi, incomingTimeout,
	outgoingTimeout uint32, inboundFee models.InboundFee, heightNow uint32,
	originalScid lnwire.ShortChannelID,
	customRecords lnwire.CustomRecords) *LinkError {

	l.mu.Lock()
	cs := l.cs
	l.calls = append(l.calls, c09iCall{
		in: incomingAmt, out: amtToForward, inExp: incomingTimeout,
		outExp: outgoingTimeout, height: heightNow,
	})
	l.mu.Unlock()

	return c09Apply(l.fx, cs).CheckHtlcForward(
		payHash, incomingAmt, amtToForward, incomingTimeout,
		outgoingTimeout, inboundFee, heightNow, originalScid,
		customRecords,
	)
}

func (l *c09iOutLink) handleSwitchPacket(pkt *htlcPacket) error {
	h := c09iHanded{
		key: pkt.inKey(), slot: l.slot, pktAmt: pkt.amount,
		pktInAmt: pkt.incomingAmount, pktOutExp: pkt.outgoingTimeout,
		pktInExp: pkt.incomingTimeout, outChan: pkt.outgoingChanID,
	}
	if add, ok := pkt.htlc.(*lnwire.UpdateAddHTLC); ok {
		h.wireAmt, h.wireExpiry = add.Amount, add.Expiry
		h.wireRecs = add.CustomRecords.Copy()
	}
	if pkt.circuit != nil {
		h.hasCircuit = true
		h.circIn = pkt.circuit.IncomingAmount
		h.circOut = pkt.circuit.OutgoingAmount
	}
	l.mu.Lock()
	l.handed = append(l.handed, h)
	l.mu.Unlock()

	return nil
}

func (l *c09iOutLink) reset(cs *c09Case) {
	l.mu.Lock()
	l.cs, l.handed, l.calls = cs, nil, nil
	l.mu.Unlock()
}

func (l *c09iOutLink) take() ([]c09iHanded, []c09iCall) {
	l.mu.Lock()
	defer l.mu.Unlock()
	h, c := l.handed, l.calls
	l.handed, l.calls = nil, nil

	return h, c
}

// c09iRecorder is the interceptor client.
type c09iRecorder struct {
	mu     sync.Mutex
	offers []InterceptedPacket
}

func (r *c09iRecorder) intercept(p InterceptedPacket) error {
	r.mu.Lock()
	r.offers = append(r.offers, p)
	r.mu.Unlock()

	return nil
}

func (r *c09iRecorder) take() []InterceptedPacket {
	r.mu.Lock()
	defer r.mu.Unlock()
	out := r.offers
	r.offers = nil

	return out
}

// ---------------------------------------------------------------------------
// Fixture

type c09iFixture struct {
	// primaryOnly (VERIF_C09_PRIMARY_ONLY=1, development) switches the
	// bookkeeping assertions off so that the sensitivity of the bigref
	// oracle alone can be measured.
	primaryOnly bool

	fx     *c09Fixture
	s      *Switch
	in     *mockChannelLink
	inBox  *c09iMailbox
	out    []*c09iOutLink
	htlcID uint64
}

func newC09iFixture(t *testing.T) *c09iFixture {
	t.Helper()

	f := &c09iFixture{fx: newC09Fixture(t)}
	f.primaryOnly = vstats.EnvInt("VERIF_C09_PRIMARY_ONLY", 0) != 0

	cdb := channeldb.OpenForTesting(t, filepath.Join(t.TempDir(), "c09i"))
	// bbolt's DB.Batch (circuit map: DeleteCircuits) waits MaxBatchDelay
	// (10 ms) for other callers before it commits. It is a latency knob of
	// the bbolt handle; no lnd code is involved.
	if vstats.EnvInt("VERIF_C09_KEEP_BATCH_DELAY", 0) == 0 &&
		fmt.Sprintf("%T", cdb.Backend) == "*bdb.db" {

		// walletdb's bdb.db is `type db bbolt.DB`.
		bdb := (*bbolt.DB)(reflect.ValueOf(cdb.Backend).UnsafePointer())
		bdb.MaxBatchDelay = 0
	}

	s, err := initSwitchWithDB(testStartingHeight, cdb)
	if err != nil {
		t.Fatalf("switch: %v", err)
	}
	if err := s.Start(); err != nil {
		t.Fatalf("switch start: %v", err)
	}
	t.Cleanup(func() { _ = s.Stop() })
	f.s = s

	mk := func(n int) *mockChannelLink {
		p, err := newMockServer(
			t, fmt.Sprintf("c09i-p%d", n), testStartingHeight, nil,
			testDefaultDelta,
		)
		if err != nil {
			t.Fatalf("peer: %v", err)
		}
		var cid lnwire.ChannelID
		cid[0], cid[1] = 0xc1, byte(n)
		scid := lnwire.NewShortChanIDFromInt(uint64(2000+n) << 40)

		return newMockChannelLink(
			s, cid, scid, emptyScid, p, true, false, false, false,
		)
	}

	f.in = mk(0)
	if err := s.AddLink(f.in); err != nil {
		t.Fatalf("add incoming: %v", err)
	}
	// Record what is delivered to the incoming link.
	mo := s.mailOrchestrator
	mo.mu.Lock()
	f.inBox = &c09iMailbox{MailBox: mo.mailboxes[f.in.ChanID()]}
	mo.mailboxes[f.in.ChanID()] = f.inBox
	mo.mu.Unlock()

	for i := 0; i < c09iSlots; i++ {
		l := &c09iOutLink{mockChannelLink: mk(1 + i), fx: f.fx, slot: i}
		if err := s.AddLink(l); err != nil {
			t.Fatalf("add link: %v", err)
		}
		f.out = append(f.out, l)
	}

	return f
}

// fenceForwarder returns once the htlcForwarder has completely processed
// everything handed to it before the call (the forwarder is one goroutine that
// answers every command on its error channel after handling it).
func (f *c09iFixture) fenceForwarder() {
	ch := make(chan error, 1)
	f.s.htlcPlex <- &plexPacket{
		pkt: &htlcPacket{
			outgoingChanID: lnwire.NewShortChanIDFromInt(0xfe << 40),
			htlc:           &lnwire.UpdateFulfillHTLC{},
		},
		err: ch,
	}
	<-ch
}

// ---------------------------------------------------------------------------
// Model

const (
	c09iStNew = iota
	c09iStHeld
	c09iStDone
)

const (
	c09iNone     = iota // nothing may leave in either direction
	c09iToSwitch        // reached the Switch: forwarded or policy failure
	c09iFailCode        // failed back by the InterceptableSwitch with a code
	c09iFailMsg         // failed back with the interceptor's opaque reason
	c09iSettle          // settled back with the interceptor's preimage
)

type c09iWant struct {
	kind   int
	inAmt  uint64 // incoming amount as the node accounts it
	outAmt uint64 // amount that must go on the wire
	recs   lnwire.CustomRecords
	height uint32 // height at the moment of the decision
	ref    bigref.Verdict
	code   lnwire.FailCode
	reason []byte
	via    string
	modIn  bool
	modOut bool
}

type c09iPkt struct {
	ix       int
	cs       *c09Case
	pkt      *htlcPacket
	key      CircuitKey
	preimage lntypes.Preimage
	hash     [32]byte

	state  int
	offers int
	want   c09iWant
	path   []string
}

type c09iRun struct {
	f   *c09iFixture
	rt  *rapid.T
	is  *InterceptableSwitch
	ntf *mock.ChainNotifier
	rec *c09iRecorder

	require   bool
	reject    uint32
	intercept uint32
	height    uint32
	connected bool

	pkts    []*c09iPkt
	labels  map[string]bool
	fp      []any
	near    bool
	steps   []string
	cleanup []CircuitKey
}

func (r *c09iRun) label(s string) { r.labels[s] = true }

func (r *c09iRun) step(format string, args ...any) {
	r.steps = append(r.steps, fmt.Sprintf(format, args...))
}

func (r *c09iRun) fail(format string, args ...any) {
	var b strings.Builder
	fmt.Fprintf(&b, "C09 Intercepted: "+format+"\n", args...)
	fmt.Fprintf(&b, "interceptable switch: reject_delta=%d "+
		"intercept_delta=%d require_interceptor=%v; height now %d\n",
		r.reject, r.intercept, r.require, r.height)
	for _, p := range r.pkts {
		fmt.Fprintf(&b, "packet %d (htlc id %d): %+v\n   path: %v\n",
			p.ix, p.key.HtlcID, *p.cs, p.path)
	}
	fmt.Fprintf(&b, "steps: %v", r.steps)
	r.rt.Fatalf("%s", b.String())
}

func (r *c09iRun) verdict(p *c09iPkt, in, out uint64,
	height uint32) bigref.Verdict {

	return bigref.CheckForward(p.cs.policy(), p.cs.limits(), bigref.Forward{
		IncomingAmt: in, OutgoingAmt: out,
		IncomingExpiry: p.cs.InExp, OutgoingExpiry: p.cs.OutExp,
		Height: height, Inbound: p.cs.inbound(),
	})
}

func (r *c09iRun) autoFail(p *c09iPkt) int64 {
	return int64(p.cs.InExp) - int64(r.reject)
}

func (r *c09iRun) tooSoon(p *c09iPkt) bool {
	return int64(p.cs.InExp) < int64(r.height)+int64(r.intercept)
}

func (p *c09iPkt) finish(w c09iWant, via string) {
	w.via = via
	p.want = w
	p.state = c09iStDone
	p.path = append(p.path, via)
}

// toSwitch: the packet is handed to the Switch with the given effective
// amounts / records at the current height.
func (r *c09iRun) toSwitch(p *c09iPkt, via string, in, out uint64,
	recs lnwire.CustomRecords, modIn, modOut bool) {

	ref := r.verdict(p, in, out, r.height)
	p.finish(c09iWant{
		kind: c09iToSwitch, inAmt: in, outAmt: out, recs: recs,
		height: r.height, ref: ref, modIn: modIn, modOut: modOut,
	}, via)
	if !ref.Near(1).Empty() && via != "plain" {
		r.near = true
	}
}

func (r *c09iRun) toSwitchUnmodified(p *c09iPkt, via string) {
	r.toSwitch(p, via, p.cs.InAmt, p.cs.OutAmt, p.cs.records(), false,
		false)
}

// onSubmit is the model of InterceptableSwitch.interceptForward.
func (r *c09iRun) onSubmit(p *c09iPkt, replay bool) {
	if d := int64(p.cs.InExp) - int64(r.height) -
		int64(r.intercept); d >= -1 && d <= 1 {

		r.near = true
		r.label("near:intercept_delta")
	}

	switch {
	// "Ignore already held htlcs." - whatever the height: the interceptor
	// was told the auto-fail height of a held htlc and may resolve it
	// until then (before lnd's repair 3fa85b0 a duplicate inside the
	// interception window was failed back while the htlc stayed held;
	// that class is only generated once the finding is no longer listed
	// as known).
	case p.state == c09iStHeld:
		p.path = append(p.path, "dup_ignored")

	// "expiries whose auto-fail height cannot be represented are failed
	// back".
	case r.autoFail(p) > math.MaxInt32:
		p.finish(c09iWant{
			kind: c09iFailCode, code: lnwire.CodeExpiryTooFar,
		}, "auto_fail_too_far")

	// CltvInterceptDelta: "the number of blocks before the expiry of the
	// htlc where we don't intercept anymore"; such forwards are failed
	// back (TestSwitchHoldForward).
	case r.tooSoon(p):
		p.finish(c09iWant{
			kind: c09iFailCode, code: lnwire.CodeExpiryTooSoon,
		}, "auto_fail_too_soon")

	case !r.connected && !r.require:
		r.toSwitchUnmodified(p, "plain")

	// Interceptor required but not connected: a new packet is failed
	// back, a replayed one is held until the interceptor reconnects.
	case !r.connected && !replay:
		p.finish(c09iWant{
			kind: c09iFailCode,
			code: lnwire.CodeTemporaryChannelFailure,
		}, "require_fail")

	case !r.connected:
		p.state = c09iStHeld
		p.path = append(p.path, "held_unoffered")

	default:
		p.state = c09iStHeld
		p.offers++
		p.path = append(p.path, "offered")
	}
}

func (r *c09iRun) held() []*c09iPkt {
	var out []*c09iPkt
	for _, p := range r.pkts {
		if p.state == c09iStHeld {
			out = append(out, p)
		}
	}

	return out
}

// ---------------------------------------------------------------------------
// Generators of the interceptor's decisions

func c09iRebase(c *c09Case, height uint32) {
	d := int64(height) - int64(c.Height)
	c.Height = height
	c.OutExp = c09ClampU32(int64(c.OutExp) + d)
	c.InExp = c09ClampU32(int64(c.InExp) + d)
}

func c09iCapIn(v uint64) uint64 {
	if v > c09MaxIncoming {
		return c09MaxIncoming
	}

	return v
}

// drawMods draws the arguments of ResumeModified around the rule boundaries
// of the outgoing policy. badRecs = the records do not validate (the call
// must return an error and change nothing).
func (r *c09iRun) drawMods(p *c09iPkt) (fn.Option[lnwire.MilliSatoshi],
	fn.Option[lnwire.MilliSatoshi], fn.Option[lnwire.CustomRecords],
	uint64, uint64, lnwire.CustomRecords, bool) {

	t, cs := r.rt, p.cs
	lbl := func(s string) string { return fmt.Sprintf("p%d_%s", p.ix, s) }

	inOpt := fn.None[lnwire.MilliSatoshi]()
	outOpt := fn.None[lnwire.MilliSatoshi]()
	recOpt := fn.None[lnwire.CustomRecords]()
	in, out := cs.InAmt, cs.OutAmt

	hi := cs.BW
	if cs.Max != 0 && cs.Max < hi {
		hi = cs.Max
	}
	if c09Pct(t, lbl("mod_intent")) < 45 && hi >= cs.Min {
		// Intent "make it pass": an outgoing amount on or inside the
		// bounds [min, min(max, bandwidth)] and an incoming amount that
		// covers the fee exactly (or with a little slack).
		switch k := c09Pct(t, lbl("ok_out_k")); {
		case k < 15:
			// keep the onion's amount
		case k < 30:
			out = cs.Min
		case k < 45:
			out = hi
		case k < 55:
			out = c09SatAdd(cs.Min, 1)
			if out > hi {
				out = hi
			}
		case k < 65:
			out = c09SatSub(hi, 1)
			if out < cs.Min {
				out = cs.Min
			}
		default:
			out = c09U64(t, lbl("ok_out"), cs.Min, hi)
		}
		if out != cs.OutAmt || c09Pct(t, lbl("ok_out_same")) < 50 {
			outOpt = fn.Some(lnwire.MilliSatoshi(out))
		}
		need := c09BigToU64(bigref.MinIncoming(
			cs.policy(), cs.inbound(), out,
		))
		if cs.InAmt < need || c09Pct(t, lbl("ok_in")) < 55 {
			switch k := c09Pct(t, lbl("ok_in_k")); {
			case k < 60:
				in = need
			case k < 75:
				in = c09SatAdd(need, 1)
			default:
				in = c09SatAdd(need, c09U64(t, lbl("ok_in_slack"),
					0, 1_000_000))
			}
			in = c09iCapIn(in)
			inOpt = fn.Some(lnwire.MilliSatoshi(in))
		}
	} else {
		// Outgoing amount around every bound.
		if c09Pct(t, lbl("mod_out")) < 72 {
			switch k := c09Pct(t, lbl("mod_out_k")); {
			case k < 16:
				out = c09Around(t, lbl("out_min"), cs.Min)
			case k < 32 && cs.Max != 0:
				out = c09Around(t, lbl("out_max"), cs.Max)
			case k < 46:
				out = c09Around(t, lbl("out_bw"), cs.BW)
			case k < 58:
				out = c09Around(t, lbl("out_in"), cs.InAmt)
			case k < 66:
				out = c09Around(t, lbl("out_orig"), cs.OutAmt)
			case k < 90 && hi >= cs.Min:
				// Inside [min, min(max, bandwidth)].
				out = c09U64(t, lbl("out_ok"), cs.Min, hi)
			case k < 94:
				out = 0
			default:
				out = c09U64(t, lbl("out_any"), 0, 1<<44)
			}
			outOpt = fn.Some(lnwire.MilliSatoshi(out))
		}

		// Incoming amount (as the node shall account it).
		if c09Pct(t, lbl("mod_in")) < 58 {
			switch k := c09Pct(t, lbl("mod_in_k")); {
			case k < 50:
				// Fee exactly covered / short / over by <= 2
				// msat for the amount that will really be sent.
				v := bigref.MinIncoming(
					cs.policy(), cs.inbound(), out,
				)
				v.Add(v, big.NewInt(int64(rapid.IntRange(
					-2, 2).Draw(t, lbl("in_fee")))))
				in = c09BigToU64(v)
			case k < 68:
				in = c09Around(t, lbl("in_out"), out)
			case k < 78:
				in = c09Around(t, lbl("in_orig"), cs.InAmt)
			case k < 83:
				in = 0
			default:
				in = c09U64(t, lbl("in_any"), 0, c09MaxIncoming)
			}
			in = c09iCapIn(in)
			inOpt = fn.Some(lnwire.MilliSatoshi(in))
		}
	}

	// Wire custom records.
	want := cs.records().Copy()
	bad := false
	switch k := c09Pct(t, lbl("mod_recs")); {
	case k < 55:
	case k < 63:
		recOpt = fn.Some(lnwire.CustomRecords{})
	case k < 94:
		recs := lnwire.CustomRecords{}
		n := 1 + c09Pick(t, lbl("nrecs"), 2)
		for i := 0; i < n; i++ {
			// Type +7 collides with the record the case itself
			// may carry: the modifier's value must win.
			key := uint64(lnwire.MinCustomRecordsTlvType + 7 +
				c09Pick(t, lbl(fmt.Sprintf("rec_k%d", i)), 3))
			recs[key] = []byte{0xc9, byte(i), byte(
				c09Pick(t, lbl(fmt.Sprintf("rec_v%d", i)), 4))}
		}
		recOpt = fn.Some(recs)
		if want == nil {
			want = lnwire.CustomRecords{}
		}
		for k, v := range recs {
			want[k] = v
		}
	default:
		// A type below the custom range does not validate.
		recOpt = fn.Some(lnwire.CustomRecords{
			uint64(1 + c09Pick(t, lbl("rec_bad"), 90)): []byte{1},
		})
		bad = true
	}

	return inOpt, outOpt, recOpt, in, out, want, bad
}

// ---------------------------------------------------------------------------
// The case

func c09iRecsEqual(a, b lnwire.CustomRecords) bool {
	if len(a) != len(b) {
		return false
	}
	for k, v := range a {
		w, ok := b[k]
		if !ok || !bytes.Equal(v, w) {
			return false
		}
	}

	return true
}

func (f *c09iFixture) newPacket(p *c09iPkt, in, out uint64,
	recs lnwire.CustomRecords) *htlcPacket {

	f.htlcID++
	scid := f.out[p.ix].ShortChanID()
	cs := p.cs

	return &htlcPacket{
		incomingChanID:  f.in.ShortChanID(),
		incomingHTLCID:  f.htlcID,
		incomingAmount:  lnwire.MilliSatoshi(in),
		amount:          lnwire.MilliSatoshi(out),
		incomingTimeout: cs.InExp,
		outgoingTimeout: cs.OutExp,
		outgoingChanID:  scid,
		outgoingHop: fn.NewLeft[lnwire.ShortChannelID, [33]byte](
			scid,
		),
		inboundFee: models.InboundFee{Base: cs.InBase, Rate: cs.InRate},
		obfuscator: NewMockObfuscator(),
		htlc: &lnwire.UpdateAddHTLC{
			PaymentHash:   p.hash,
			Amount:        lnwire.MilliSatoshi(out),
			Expiry:        cs.OutExp,
			CustomRecords: recs.Copy(),
			OnionBlob:     [lnwire.OnionPacketSize]byte{4, 5, 6},
		},
	}
}

func (f *c09iFixture) runCase(rt *rapid.T, st *vstats.Collector) {
	r := &c09iRun{f: f, rt: rt, labels: map[string]bool{}}

	// --- packets (one per slot; common height) ------------------------
	n := 1
	switch k := c09Pct(rt, "npkts"); {
	case k < 60:
	case k < 88:
		n = 2
	default:
		n = 3
	}
	for i := 0; i < n; i++ {
		cs := c09Gen(rt, f.fx, false)
		if i == 0 {
			h := cs.Height
			if h > c09iMaxHeight {
				h &= 1<<31 - 1
			}
			if h > c09iMaxHeight {
				h = c09iMaxHeight
			}
			r.height = h
		}
		c09iRebase(cs, r.height)
		p := &c09iPkt{ix: i, cs: cs}
		r.pkts = append(r.pkts, p)
		r.fp = append(r.fp, cs.fp(false))
	}
	r.label(fmt.Sprintf("pkts:%d", n))

	// --- the interceptable switch ---------------------------------------
	b := r.pkts[c09Pick(rt, "idelta_pkt", n)]
	g := int64(b.cs.InExp) - int64(r.height)
	switch k := c09Pct(rt, "idelta_k"); {
	case k < 28 && (g >= 22 || k < 4):
		// lnd's DefaultFinalCltvRejectDelta / DefaultCltvInterceptDelta.
		r.reject, r.intercept = 19, 22
	case k < 60 && g-1 >= 1 && g+1 <= int64(c09MaxDelta):
		// incoming_expiry == height + intercept_delta + {-1, 0, +1}.
		r.intercept = uint32(g + int64(c09Pick(rt, "idelta_d", 3)) - 1)
		gap := uint32(c09Pick(rt, "ireject_gap", 4))
		if gap > r.intercept-1 {
			gap = r.intercept - 1
		}
		r.reject = r.intercept - 1 - gap
	default:
		top := 300
		if g >= 1 && g < 300 && k < 92 {
			// Mostly early enough to be offered to the interceptor.
			top = int(g)
		}
		r.intercept = uint32(rapid.IntRange(1, top).Draw(rt, "idelta"))
		r.reject = uint32(rapid.IntRange(0, int(r.intercept)-1).Draw(
			rt, "ireject"))
	}
	r.require = c09Pct(rt, "require") < 30
	connect := c09Pct(rt, "connected") < 82
	r.fp = append(r.fp, r.reject, r.intercept, r.require, connect)
	if r.require {
		r.label("cfg:require_interceptor")
	}

	// --- reset observation points, build packets ------------------------
	f.fenceForwarder()
	_ = f.inBox.take()
	for i, l := range f.out {
		var cs *c09Case
		if i < n {
			cs = r.pkts[i].cs
		}
		l.reset(cs)
	}
	atomic.StoreUint32(&f.s.bestHeight, r.height)
	for _, p := range r.pkts {
		var pre lntypes.Preimage
		pre[0], pre[1] = 0xc9, byte(p.ix)
		for i := 0; i < 8; i++ {
			pre[2+i] = byte((f.htlcID + 1) >> (8 * i))
		}
		p.preimage = pre
		p.hash = sha256.Sum256(pre[:])
		p.pkt = f.newPacket(p, p.cs.InAmt, p.cs.OutAmt, p.cs.records())
		p.key = p.pkt.inKey()
		r.cleanup = append(r.cleanup, p.key)
	}
	defer func() {
		// Also after a failed case (shrinking re-uses the fixture).
		f.fenceForwarder()
		_ = f.s.circuits.DeleteCircuits(r.cleanup...)
	}()

	r.rec = &c09iRecorder{}
	r.ntf = &mock.ChainNotifier{
		EpochChan: make(chan *chainntnfs.BlockEpoch),
	}
	is, err := NewInterceptableSwitch(&InterceptableSwitchConfig{
		Switch:             f.s,
		Notifier:           r.ntf,
		CltvRejectDelta:    r.reject,
		CltvInterceptDelta: r.intercept,
		RequireInterceptor: r.require,
	})
	if err != nil {
		rt.Fatalf("NewInterceptableSwitch(%d, %d): %v", r.reject,
			r.intercept, err)
	}
	if err := is.Start(); err != nil {
		rt.Fatalf("interceptable switch start: %v", err)
	}
	defer func() { _ = is.Stop() }()
	r.is = is
	// Every hand-off below is an unbuffered channel send to the run loop,
	// so the loop sees the operations in program order.
	r.ntf.EpochChan <- &chainntnfs.BlockEpoch{Height: int32(r.height)}
	if connect {
		is.SetInterceptor(r.rec.intercept)
		r.connected = true
	}

	// --- submit ---------------------------------------------------------
	oneBatch := n == 1 || c09Pct(rt, "one_batch") < 65
	submit := func(ps []*c09iPkt) {
		replay := c09Pct(rt, "replay") < 30
		r.fp = append(r.fp, "submit", len(ps), replay)
		pkts := make([]*htlcPacket, len(ps))
		for i, p := range ps {
			pkts[i] = p.pkt
		}
		if err := is.ForwardPackets(nil, replay, pkts...); err != nil {
			r.fail("ForwardPackets: %v", err)
		}
		r.step("submit(%d pkts, replay=%v)", len(ps), replay)
		for _, p := range ps {
			r.onSubmit(p, replay)
		}
	}
	if oneBatch {
		submit(r.pkts)
	} else {
		for _, p := range r.pkts {
			submit([]*c09iPkt{p})
		}
	}

	// --- the interceptor's script --------------------------------------
	for s := 0; s < c09iMaxSteps; s++ {
		held := r.held()
		if len(held) == 0 {
			break
		}
		lbl := func(x string) string { return fmt.Sprintf("s%d_%s", s, x) }
		k := c09Pct(rt, lbl("k"))
		r.fp = append(r.fp, "step", k)
		if !r.connected && k < 62 && k >= 30 {
			// A disconnected client mostly reconnects.
			k = 75
		}
		switch {
		case k < 62:
			r.stepResolve(held[c09Pick(rt, lbl("who"), len(held))], s)

		case k < 71:
			r.stepBlock(held[c09Pick(rt, lbl("who"), len(held))], s)

		case k < 82:
			r.stepToggle()

		case k < 88:
			p := held[c09Pick(rt, lbl("who"), len(held))]
			if r.tooSoon(p) && vstats.IsKnown(c09KnownReplayTooSoon) {
				// A block made it too late to offer the htlc
				// again: lnd failed the duplicate back with
				// expiry_too_soon although the htlc stayed
				// held and resolvable (finding
				// C09:intercept-replay-too-soon-double-resolution,
				// see c09_intercept_repro_test.go; repaired in
				// lnd by 3fa85b0). Excluded by construction
				// only while the key is listed as known;
				// otherwise the duplicate is driven and must
				// be ignored like any duplicate of a held htlc.
				st.Count("excluded_known", 1)

				continue
			}
			if r.tooSoon(p) {
				r.label("step:resubmit_held_too_soon")
			}
			replay := c09Pct(rt, lbl("replay")) < 50
			err := r.is.ForwardPackets(nil, replay, p.pkt)
			if err != nil {
				r.fail("ForwardPackets (dup): %v", err)
			}
			r.step("resubmit(p%d, replay=%v)", p.ix, replay)
			r.label("step:resubmit_held")
			r.onSubmit(p, replay)

		case k < 94:
			r.stepResolveUnknown(s)

		default:
			r.step("stop")
			s = c09iMaxSteps
		}
	}
	// Afterwards: whatever the client does now must not touch the htlcs
	// that are resolved already (a reconnect replays only what is still
	// held, a second resolution finds nothing, a block expires nothing).
	for s, extra := 0, c09Pick(rt, "extra_steps", 3); s < extra; s++ {
		lbl := fmt.Sprintf("x%d", s)
		k := c09Pct(rt, lbl+"_k")
		r.fp = append(r.fp, "extra", k)
		switch {
		case k < 40:
			r.stepResolveUnknown(100 + s)
		case k < 85:
			r.stepToggle()
		default:
			r.stepBlock(r.pkts[c09Pick(rt, lbl+"_who", n)], 100+s)
		}
	}
	for _, p := range r.held() {
		p.path = append(p.path, "left_held")
	}

	// --- observe ----------------------------------------------------------
	r.fence()

	back := map[CircuitKey][]*htlcPacket{}
	for _, pkt := range f.inBox.take() {
		back[pkt.inKey()] = append(back[pkt.inKey()], pkt)
	}
	handed := map[CircuitKey][]c09iHanded{}
	calls := make([][]c09iCall, len(f.out))
	for i, l := range f.out {
		hs, cs := l.take()
		calls[i] = cs
		for _, h := range hs {
			handed[h.key] = append(handed[h.key], h)
		}
	}
	offers := map[CircuitKey][]InterceptedPacket{}
	for _, o := range r.rec.take() {
		k := CircuitKey(o.IncomingCircuit)
		offers[k] = append(offers[k], o)
	}

	known := map[CircuitKey]bool{}
	for _, p := range r.pkts {
		known[p.key] = true
	}
	for k := range back {
		if !known[k] {
			r.fail("the incoming link received a response for "+
				"circuit %v, which is none of the forwarded htlcs", k)
		}
	}
	for k, hs := range handed {
		if !known[k] {
			r.fail("an outgoing link received an htlc with incoming "+
				"circuit %v (slot %d), which was never forwarded", k,
				hs[0].slot)
		}
	}
	for k := range offers {
		if !known[k] {
			r.fail("interceptor was offered unknown circuit %v", k)
		}
	}

	results := map[int]c09iResult{}
	for _, p := range r.pkts {
		res, ok := r.verify(p, handed[p.key], back[p.key], offers[p.key],
			calls[p.ix])
		if ok {
			results[p.ix] = res
		}
	}

	// --- differential against the plain Switch -----------------------------
	for _, p := range r.pkts {
		w := p.want
		if w.kind != c09iToSwitch {
			continue
		}
		f.fenceForwarder()
		atomic.StoreUint32(&f.s.bestHeight, w.height)
		clone := f.newPacket(p, w.inAmt, w.outAmt, w.recs)
		r.cleanup = append(r.cleanup, clone.inKey())
		if err := f.s.ForwardPackets(nil, clone); err != nil {
			r.fail("plain ForwardPackets: %v", err)
		}
		f.fenceForwarder()
		hs, _ := f.out[p.ix].take()
		bs := f.inBox.take()
		main := results[p.ix]
		switch {
		case len(hs) == 1 && len(bs) == 0:
			if !main.forwarded {
				r.fail("packet %d via %s was failed back (%v), "+
					"but the same effective packet (in=%d out=%d) "+
					"sent through the plain Switch is FORWARDED",
					p.ix, w.via, main.code, w.inAmt, w.outAmt)
			}
			if uint64(hs[0].wireAmt) != w.outAmt {
				r.fail("plain forward altered the amount")
			}

		case len(hs) == 0 && len(bs) == 1 && bs[0].linkFailure != nil:
			le := bs[0].linkFailure
			if main.forwarded {
				r.fail("packet %d via %s was FORWARDED, but the "+
					"same effective packet (in=%d out=%d) sent "+
					"through the plain Switch is failed with %v",
					p.ix, w.via, w.inAmt, w.outAmt, le)
			}
			if le.WireMessage().Code() != main.code ||
				le.FailureDetail != main.detail {

				r.fail("packet %d via %s failed with %v/%v, the "+
					"plain Switch fails the same effective "+
					"packet with %v/%v", p.ix, w.via, main.code,
					main.detail, le.WireMessage().Code(),
					le.FailureDetail)
			}

		default:
			r.fail("plain Switch: %d hand-offs and %d responses for "+
				"one packet", len(hs), len(bs))
		}
	}

	// --- evidence ---------------------------------------------------------
	r.finishLabels()
	labels := make([]string, 0, len(r.labels))
	for l := range r.labels {
		labels = append(labels, l)
	}
	sort.Strings(labels)
	var sample any
	if st.WantSample() {
		type ps struct {
			Case *c09Case `json:"case"`
			Path []string `json:"path"`
		}
		smp := struct {
			Reject    uint32   `json:"reject_delta"`
			Intercept uint32   `json:"intercept_delta"`
			Require   bool     `json:"require_interceptor"`
			Steps     []string `json:"steps"`
			Pkts      []ps     `json:"packets"`
		}{r.reject, r.intercept, r.require, r.steps, nil}
		for _, p := range r.pkts {
			smp.Pkts = append(smp.Pkts, ps{p.cs, p.path})
		}
		sample = smp
	}
	st.Case(vstats.FP(r.fp...), r.near, labels, sample)
}

// fence returns once everything handed to the interceptable switch before the
// call has been processed completely: first the run loop (a resolution for an
// unknown key is answered after everything before it, and the loop hands
// packets to the Switch synchronously), then the Switch's forwarder.
func (r *c09iRun) fence() {
	err := r.is.Resolve(&FwdResolution{
		Key: models.CircuitKey{
			ChanID: r.f.in.ShortChanID(), HtlcID: 0,
		},
		Action: FwdActionResume,
	})
	if !errors.Is(err, ErrFwdNotExists) {
		r.fail("resolution of an unknown key returned %v", err)
	}
	r.f.fenceForwarder()
}

// stepResolve resolves a held packet the way an interceptor client does.
func (r *c09iRun) stepResolve(p *c09iPkt, s int) {
	t := r.rt
	lbl := func(x string) string { return fmt.Sprintf("s%d_%s", s, x) }
	res := &FwdResolution{Key: models.CircuitKey(p.key)}
	k := c09Pct(t, lbl("act"))
	r.fp = append(r.fp, "resolve", p.ix, k)

	expectErr := false
	var then func()
	switch {
	case k < 16:
		res.Action = FwdActionResume
		r.step("resume(p%d)", p.ix)
		then = func() { r.toSwitchUnmodified(p, "resume") }

	case k < 66:
		res.Action = FwdActionResumeModified
		inOpt, outOpt, recOpt, in, out, recs, bad := r.drawMods(p)
		res.InAmountMsat, res.OutAmountMsat = inOpt, outOpt
		res.OutWireCustomRecords = recOpt
		r.fp = append(r.fp, inOpt, outOpt, fmt.Sprint(recOpt))
		r.step("resume_modified(p%d, in=%v, out=%v, recs=%v)", p.ix,
			inOpt, outOpt, recOpt)
		if bad {
			expectErr = true
			r.label("resolve:invalid_records_error")

			break
		}
		modIn, modOut := inOpt.IsSome(), outOpt.IsSome()
		via := "resume_modified"
		if !modIn && !modOut && recOpt.IsNone() {
			via = "resume_modified_nothing"
		}
		then = func() {
			r.toSwitch(p, via, in, out, recs, modIn, modOut)
			// Which way does the override move the verdict?
			orig := r.verdict(p, p.cs.InAmt, p.cs.OutAmt, r.height)
			switch {
			case !modIn && !modOut:
			case orig.OK() && !p.want.ref.OK():
				r.label("override:accept_to_reject")
			case !orig.OK() && p.want.ref.OK():
				r.label("override:reject_to_accept")
			case orig.OK():
				r.label("override:stays_accept")
			default:
				r.label("override:stays_reject")
			}
		}

	case k < 76:
		res.Action = FwdActionFail
		codes := []lnwire.FailCode{
			lnwire.CodeTemporaryChannelFailure,
			lnwire.CodeInvalidOnionVersion,
			lnwire.CodeInvalidOnionHmac,
			lnwire.CodeInvalidOnionKey,
			lnwire.CodeExpiryTooSoon,
			lnwire.CodeExpiryTooFar,
		}
		code := codes[c09Pick(t, lbl("code"), len(codes))]
		res.FailureCode = code
		r.step("fail(p%d, %v)", p.ix, code)
		then = func() {
			p.finish(c09iWant{kind: c09iFailCode, code: code},
				"interceptor_fail_code")
		}

	case k < 81:
		res.Action = FwdActionFail
		reason := []byte{0xc9, byte(p.ix), byte(c09Pick(t, lbl("msg"), 50))}
		res.FailureMessage = reason
		r.step("fail(p%d, message)", p.ix)
		then = func() {
			p.finish(c09iWant{kind: c09iFailMsg, reason: reason},
				"interceptor_fail_msg")
		}

	case k < 89:
		res.Action = FwdActionSettle
		res.Preimage = p.preimage
		r.step("settle(p%d)", p.ix)
		then = func() {
			p.finish(c09iWant{kind: c09iSettle}, "interceptor_settle")
		}

	case k < 93:
		res.Action = FwdActionSettle
		res.Preimage = p.preimage
		res.Preimage[31] ^= 1
		r.step("settle(p%d, wrong preimage)", p.ix)
		expectErr = true
		r.label("resolve:wrong_preimage_error")

	case k < 97:
		res.Action = FwdActionFail
		res.FailureCode = lnwire.CodeFeeInsufficient
		r.step("fail(p%d, unsupported code)", p.ix)
		expectErr = true
		r.label("resolve:unsupported_code_error")

	default:
		res.Action = FwdAction(77)
		r.step("unknown action(p%d)", p.ix)
		expectErr = true
	}

	err := r.is.Resolve(res)
	switch {
	case expectErr && err == nil:
		r.fail("resolution %+v of packet %d returned no error", *res,
			p.ix)

	case expectErr:
		// "removes the forward from the set if the resolution
		// succeeds": still held, nothing may have left.
		p.path = append(p.path, "resolve_error")

	case err != nil:
		r.fail("resolution %+v of held packet %d: %v", *res, p.ix, err)

	default:
		then()
	}
}

// stepResolveUnknown resolves a packet that is not (any more) held.
func (r *c09iRun) stepResolveUnknown(s int) {
	var done []*c09iPkt
	for _, p := range r.pkts {
		if p.state == c09iStDone {
			done = append(done, p)
		}
	}
	if len(done) == 0 {
		return
	}
	p := done[c09Pick(r.rt, fmt.Sprintf("s%d_done", s), len(done))]
	actions := []FwdAction{
		FwdActionResume, FwdActionResumeModified, FwdActionSettle,
		FwdActionFail,
	}
	a := actions[c09Pick(r.rt, fmt.Sprintf("s%d_done_act", s), len(actions))]
	r.fp = append(r.fp, "resolve_done", p.ix, a)
	err := r.is.Resolve(&FwdResolution{
		Key: models.CircuitKey(p.key), Action: a, Preimage: p.preimage,
		FailureCode:   lnwire.CodeTemporaryChannelFailure,
		OutAmountMsat: fn.Some(lnwire.MilliSatoshi(p.cs.Min)),
	})
	r.step("resolve_again(p%d, %v)", p.ix, a)
	r.label("step:resolve_not_held")
	if !errors.Is(err, ErrFwdNotExists) {
		r.fail("second resolution (%v) of packet %d, which is not "+
			"held any more, returned %v", a, p.ix, err)
	}
}

// stepToggle connects / disconnects the interceptor client.
func (r *c09iRun) stepToggle() {
	if r.connected {
		r.is.SetInterceptor(nil)
		r.connected = false
		r.step("disconnect")
		r.label("step:disconnect")
		if r.require {
			// "If an interceptor is required, keep the held htlcs."
			for _, p := range r.held() {
				p.path = append(p.path, "retained")
			}

			return
		}
		// "Interceptor is not required. Release off-chain held
		// forwards": resumed as if not intercepted.
		for _, p := range r.held() {
			r.toSwitchUnmodified(p, "released")
		}

		return
	}

	r.is.SetInterceptor(r.rec.intercept)
	r.connected = true
	r.step("connect")
	r.label("step:connect")
	// "Replay all currently held htlcs."
	for _, p := range r.held() {
		p.offers++
		p.path = append(p.path, "replayed")
	}
}

// stepBlock delivers a block around the auto-fail height of a held packet.
func (r *c09iRun) stepBlock(p *c09iPkt, s int) {
	auto := r.autoFail(p)
	d := int64(c09Pick(r.rt, fmt.Sprintf("s%d_block_d", s), 4)) - 1
	h := auto + d
	if d == 2 {
		h = int64(r.height) + 1
	}
	if h < int64(r.height) || h > int64(c09iMaxHeight) {
		h = int64(r.height) + 1
		if h > int64(c09iMaxHeight) {
			return
		}
	}
	r.fp = append(r.fp, "block", h)
	if p.state == c09iStHeld && h-auto >= -1 && h-auto <= 1 {
		r.near = true
		r.label("near:auto_fail_height")
	}

	// The forwarder reads the Switch's height when it takes a decision:
	// let the run loop and the forwarder finish what they have before the
	// height moves.
	r.fence()
	r.height = uint32(h)
	atomic.StoreUint32(&r.f.s.bestHeight, r.height)
	r.ntf.EpochChan <- &chainntnfs.BlockEpoch{Height: int32(h)}
	r.step("block(%d)", h)
	r.label("step:block")

	// "autoFailHeight is the block height at which the held off-chain
	// HTLC must be failed back" (TestInterceptableSwitchWatchDog).
	for _, q := range r.held() {
		if r.autoFail(q) <= h {
			q.finish(c09iWant{
				kind: c09iFailCode,
				code: lnwire.CodeTemporaryChannelFailure,
			}, "expired_while_held")
		}
	}
}

type c09iResult struct {
	forwarded bool
	code      lnwire.FailCode
	detail    FailureDetail
}

// verify compares what was observed for one packet with the model.
func (r *c09iRun) verify(p *c09iPkt, handed []c09iHanded, back []*htlcPacket,
	offers []InterceptedPacket, calls []c09iCall) (c09iResult, bool) {

	var res c09iResult
	cs, w := p.cs, p.want
	r.label("entry:" + p.path[0])
	r.label("final:" + p.path[len(p.path)-1])

	// The interceptor client: offered exactly as often as documented,
	// with the htlc's own (unmodified) data.
	if len(offers) != p.offers {
		r.fail("packet %d was offered to the interceptor %d times, "+
			"expected %d", p.ix, len(offers), p.offers)
	}
	for _, o := range offers {
		auto := int32(r.autoFail(p))
		if uint64(o.IncomingAmount) != cs.InAmt ||
			uint64(o.OutgoingAmount) != cs.OutAmt ||
			o.IncomingExpiry != cs.InExp ||
			o.OutgoingExpiry != cs.OutExp ||
			o.OutgoingChanID != r.f.out[p.ix].ShortChanID() ||
			o.Hash != lntypes.Hash(p.hash) ||
			o.AutoFailHeight() != auto {

			r.fail("packet %d offered to the interceptor as %+v "+
				"(auto fail height %d), expected auto fail height %d "+
				"and the htlc's own amounts/expiries", p.ix, o,
				o.AutoFailHeight(), auto)
		}
	}

	describe := func() string {
		s := ""
		for _, h := range handed {
			s += fmt.Sprintf("[handed to slot %d: wire amount %d "+
				"expiry %d; packet amount %d incoming %d] ", h.slot,
				h.wireAmt, h.wireExpiry, h.pktAmt, h.pktInAmt)
		}
		for _, b := range back {
			s += fmt.Sprintf("[back: %T linkFailure=%v] ", b.htlc,
				b.linkFailure)
		}
		if len(calls) > 0 {
			s += fmt.Sprintf("[CheckHtlcForward calls: %+v]", calls)
		}
		if s == "" {
			s = "nothing"
		}

		return s
	}

	// The money rule needs no model of the interception at all: whatever
	// leaves must satisfy every rule for the amounts that really leave.
	for _, h := range handed {
		in := cs.InAmt
		if w.kind == c09iToSwitch {
			in = w.inAmt
		}
		height := r.height
		if w.kind == c09iToSwitch {
			height = w.height
		}
		act := bigref.CheckForward(cs.policy(), cs.limits(),
			bigref.Forward{
				IncomingAmt: in, OutgoingAmt: uint64(h.wireAmt),
				IncomingExpiry: cs.InExp,
				OutgoingExpiry: h.wireExpiry,
				Height:         height, Inbound: cs.inbound(),
			})
		if !act.OK() {
			r.fail("packet %d: an HTLC of %d msat (expiry %d) was "+
				"FORWARDED against %d msat accounted as incoming, "+
				"although exact arithmetic says rules %v are "+
				"violated for these amounts (margins %s); observed: %s",
				p.ix, h.wireAmt, h.wireExpiry, in, act.Violated,
				c09Margins(&act), describe())
		}
		if h.slot != p.ix {
			r.fail("packet %d was handed to the link of slot %d",
				p.ix, h.slot)
		}
	}

	switch w.kind {
	case c09iNone:
		if len(handed)+len(back) != 0 {
			r.fail("packet %d is still held (%v) but something left: "+
				"%s", p.ix, p.path, describe())
		}
		r.label("outcome:held_nothing_left")

		return res, false

	case c09iToSwitch:
		V := w.ref.Violated
		for _, rule := range V.Rules() {
			r.label("violated:" + rule.String())
		}
		for _, rule := range w.ref.Near(1).Rules() {
			r.label("near:" + rule.String())
		}
		if len(handed)+len(back) != 1 {
			r.fail("packet %d reached the Switch via %s: expected "+
				"exactly one outcome, observed: %s", p.ix, w.via,
				describe())
		}
		if len(handed) == 1 {
			h := handed[0]
			if !V.Empty() {
				r.fail("packet %d via %s FORWARDED although rules "+
					"%v are violated for in=%d out=%d at height "+
					"%d; observed %s", p.ix, w.via, V, w.inAmt,
					w.outAmt, w.height, describe())
			}
			switch {
			case r.f.primaryOnly:

			case uint64(h.wireAmt) != w.outAmt:
				r.fail("packet %d via %s: %d msat on the wire, "+
					"expected %d", p.ix, w.via, h.wireAmt, w.outAmt)

			case h.wireExpiry != cs.OutExp || h.pktOutExp != cs.OutExp ||
				h.pktInExp != cs.InExp:

				r.fail("packet %d via %s: expiries altered: %s",
					p.ix, w.via, describe())

			case h.pktAmt != h.wireAmt:
				r.fail("packet %d via %s: the packet records an "+
					"outgoing amount of %d msat but %d msat go on "+
					"the wire", p.ix, w.via, h.pktAmt, h.wireAmt)

			case uint64(h.pktInAmt) != w.inAmt:
				r.fail("packet %d via %s: incoming amount %d, "+
					"expected %d", p.ix, w.via, h.pktInAmt, w.inAmt)

			case !h.hasCircuit || h.circIn != h.pktInAmt ||
				h.circOut != h.wireAmt:

				r.fail("packet %d via %s: circuit records "+
					"in=%d out=%d for an htlc of in=%d out=%d",
					p.ix, w.via, h.circIn, h.circOut, h.pktInAmt,
					h.wireAmt)

			case h.outChan != r.f.out[p.ix].ShortChanID():
				r.fail("packet %d: outgoing chan id %v", p.ix,
					h.outChan)

			case !c09iRecsEqual(h.wireRecs, w.recs):
				r.fail("packet %d via %s: wire custom records %v, "+
					"expected %v", p.ix, w.via, h.wireRecs, w.recs)
			}
			res.forwarded = true
			r.label("outcome:forwarded")
			if w.modIn || w.modOut {
				r.label("outcome:forwarded_modified")
			}

			return res, true
		}

		b := back[0]
		fail, ok := b.htlc.(*lnwire.UpdateFailHTLC)
		if !ok || b.linkFailure == nil {
			r.fail("packet %d via %s: expected a policy failure, "+
				"observed %s", p.ix, w.via, describe())
		}
		if V.Empty() {
			r.fail("packet %d via %s REJECTED with %v although every "+
				"rule holds for in=%d out=%d at height %d "+
				"(margins %s); observed %s", p.ix, w.via,
				b.linkFailure, w.inAmt, w.outAmt, w.height,
				c09Margins(&w.ref), describe())
		}
		named, name, ok := c09Named(b.linkFailure)
		if !ok || !named.Intersects(V) {
			r.fail("packet %d via %s rejected with %s (names %v) but "+
				"the rules violated for in=%d out=%d are %v; "+
				"observed %s", p.ix, w.via, name, named, w.inAmt,
				w.outAmt, V, describe())
		}
		fe, err := newMockDeobfuscator().DecryptError(fail.Reason)
		if err != nil {
			r.fail("packet %d: failure reason unreadable: %v", p.ix,
				err)
		}
		if fe.WireMessage().Code() != b.linkFailure.WireMessage().Code() {
			r.fail("packet %d: failure on the wire %v, link "+
				"failure %v", p.ix, fe.WireMessage().Code(),
				b.linkFailure.WireMessage().Code())
		}
		if !r.f.primaryOnly && (uint64(b.incomingAmount) != w.inAmt ||
			uint64(b.amount) != w.outAmt) {

			r.fail("packet %d via %s: failure reported for an htlc "+
				"of in=%d out=%d, expected in=%d out=%d", p.ix,
				w.via, b.incomingAmount, b.amount, w.inAmt, w.outAmt)
		}
		res.code = b.linkFailure.WireMessage().Code()
		res.detail = b.linkFailure.FailureDetail
		r.label("outcome:policy_failure")
		r.label("code:" + name)
		if w.modIn || w.modOut {
			r.label("outcome:policy_failure_modified")
		}

		return res, true
	}

	// Answered by the InterceptableSwitch itself.
	if len(handed) != 0 || len(back) != 1 {
		r.fail("packet %d (%s): expected exactly one response to the "+
			"incoming link and nothing forwarded, observed: %s", p.ix,
			w.via, describe())
	}
	b := back[0]
	if b.linkFailure != nil {
		r.fail("packet %d (%s): expected the interceptable switch's "+
			"own response, got policy failure %v", p.ix, w.via,
			b.linkFailure)
	}
	switch w.kind {
	case c09iFailCode:
		fail, ok := b.htlc.(*lnwire.UpdateFailHTLC)
		if !ok {
			r.fail("packet %d (%s): got %T", p.ix, w.via, b.htlc)
		}
		fe, err := newMockDeobfuscator().DecryptError(fail.Reason)
		if err != nil {
			r.fail("packet %d (%s): reason unreadable: %v", p.ix,
				w.via, err)
		}
		if fe.WireMessage().Code() != w.code {
			r.fail("packet %d (%s): failed back with %v, expected %v",
				p.ix, w.via, fe.WireMessage().Code(), w.code)
		}
		r.label("outcome:" + w.via)

	case c09iFailMsg:
		fail, ok := b.htlc.(*lnwire.UpdateFailHTLC)
		if !ok || !bytes.Equal(fail.Reason, w.reason) {
			r.fail("packet %d (%s): got %T, expected the "+
				"interceptor's failure message", p.ix, w.via, b.htlc)
		}
		r.label("outcome:" + w.via)

	case c09iSettle:
		settle, ok := b.htlc.(*lnwire.UpdateFulfillHTLC)
		if !ok || settle.PaymentPreimage != [32]byte(p.preimage) {
			r.fail("packet %d (%s): got %T, expected a settle with "+
				"the interceptor's preimage", p.ix, w.via, b.htlc)
		}
		r.label("outcome:" + w.via)
	}

	return res, false
}

func (r *c09iRun) finishLabels() {
	for _, p := range r.pkts {
		w := p.want
		if w.kind != c09iToSwitch {
			continue
		}
		switch {
		case w.modIn && w.modOut:
			r.label("mod:in+out")
		case w.modIn:
			r.label("mod:in")
		case w.modOut:
			r.label("mod:out")
		}
		if len(w.recs) != len(p.cs.records()) ||
			!c09iRecsEqual(w.recs, p.cs.records()) {

			r.label("mod:records")
		}
	}
	if r.near {
		r.label("nontrivial")
	}
}

// TestVerifC09Intercepted: see the comment at the top of the file.
func TestVerifC09Intercepted(t *testing.T) {
	f := newC09iFixture(t)
	st := vstats.New("TestVerifC09Intercepted")
	defer st.Flush()

	rapid.Check(t, func(rt *rapid.T) {
		f.runCase(rt, st)
	})

	// Nothing may be left behind in the circuit map.
	f.fenceForwarder()
	if n := f.s.circuits.NumPending(); n != 0 {
		t.Fatalf("%d circuits left in the circuit map", n)
	}
}
