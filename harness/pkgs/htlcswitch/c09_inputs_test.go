//go:build verif

package htlcswitch

// C09, inputs of the decision: what the incoming link hands to the Switch.
//
// CheckHtlcForward can only be as right as its arguments. They are assembled
// by channelLink.processRemoteAdds at two code sites: the first-time site
// (forwarding package in FwdStateLockedIn) and the *reforward* site (package
// in FwdStateProcessed, taken after a restart for every ADD that is set in
// the FwdFilter and not yet in the AckFilter).
//
// This test drives the real processRemoteAdds of a real channelLink with
// generated forwarding packages that are written to, and re-read from, the
// link's real channel database (real ChannelPackager): first-time pass, then
// "restart" (optionally with a crafted FwdFilter subset and a generated set of
// acked ADDs), then the reforward pass with a fresh onion decoder. The
// packets given to cfg.ForwardPackets are captured.
//
// Oracle (model of the hand-off, written from the generated adds/payloads):
//   * exactly the expected ADDs are handed over, in package order
//     (first pass: every decodable non-exit ADD; reforward: those in the
//     FwdFilter and not in the AckFilter);
//   * each packet carries incomingAmount / incomingTimeout / incomingHTLCID /
//     payment hash of its ADD, amount / outgoingTimeout / outgoingChanID of
//     its onion payload, sourceRef = (package height, index in the package),
//     and inboundFee = the link's configured inbound fee;
//   * metamorphic: a reforwarded packet equals the first-time packet of the
//     same ADD on every decision-relevant field;
//   * the FwdFilter persisted by the first pass is the set of handed-over
//     indices;
//   * end to end: the packet's fields, given to the outgoing link's real
//     CheckHtlcForward, yield the verdict bigref computes from the generated
//     ADD, payload and the link's inbound fee.

import (
	"fmt"
	"testing"

	"github.com/lightningnetwork/lnd/channeldb"
	"github.com/lightningnetwork/lnd/graph/db/models"
	"github.com/lightningnetwork/lnd/htlcswitch/hop"
	"github.com/lightningnetwork/lnd/internal/verif/bigref"
	"github.com/lightningnetwork/lnd/internal/verif/vstats"
	"github.com/lightningnetwork/lnd/kvdb"
	"github.com/lightningnetwork/lnd/lnwire"
	"pgregory.net/rapid"
)

type c09Batch struct {
	replay bool
	pkts   []*htlcPacket
}

type c09InFixture struct {
	fx      *c09Fixture
	in      *channelLink
	cdb     *channeldb.ChannelStateDB
	batches []c09Batch
}

func newC09InFixture(t *testing.T) *c09InFixture {
	t.Helper()

	f := &c09InFixture{fx: newC09Fixture(t)}
	h, err := newSingleLinkTestHarness(t, 5_000_000, 50_000)
	if err != nil {
		t.Fatalf("incoming link: %v", err)
	}
	l, ok := h.aliceLink.(*channelLink)
	if !ok {
		t.Fatalf("unexpected link type %T", h.aliceLink)
	}
	l.cfg.FailAliasUpdate = func(lnwire.ShortChannelID,
		bool) *lnwire.ChannelUpdate1 {

		return nil
	}
	// The link is not started; give it the mailbox Switch.AddLink would.
	l.AttachMailBox(h.aliceSwitch.mailOrchestrator.GetOrCreateMailBox(
		l.ChanID(), l.ShortChanID(),
	))
	l.cfg.ForwardPackets = func(_ <-chan struct{}, replay bool,
		pkts ...*htlcPacket) error {

		f.batches = append(f.batches, c09Batch{replay, pkts})
		return nil
	}
	f.in = l
	f.cdb = testChannelStateDB(t, l.channel)

	return f
}

const (
	c09AddForward = iota
	c09AddUndecodable
	c09AddExit
)

// c09Add is one generated ADD of a forwarding package.
type c09Add struct {
	kind int
	cs   *c09Case // amounts/expiries (+ outgoing policy for the decision)
	scid lnwire.ShortChannelID
	msg  *lnwire.UpdateAddHTLC
}

func (a *c09Add) kindName() string {
	return [...]string{"forward", "undecodable", "exit"}[a.kind]
}

// loadPkg re-reads the package of the given height from the link's database.
func (f *c09InFixture) loadPkg(height uint64) (*channeldb.FwdPkg, error) {
	pkgs, err := f.in.channel.LoadFwdPkgs()
	if err != nil {
		return nil, err
	}
	for _, p := range pkgs {
		if p.Height == height {
			return p, nil
		}
	}

	return nil, fmt.Errorf("package %d not on disk (%d packages)", height,
		len(pkgs))
}

func (f *c09InFixture) writePkg(height uint64, adds []*c09Add) error {
	ups := make([]channeldb.LogUpdate, len(adds))
	for i, a := range adds {
		ups[i] = channeldb.LogUpdate{
			LogIndex: a.msg.ID, UpdateMsg: a.msg,
		}
	}
	pkg := channeldb.NewFwdPkg(f.in.ShortChanID(), height, ups, nil)

	return kvdb.Update(f.cdb.GetParentDB(), func(tx kvdb.RwTx) error {
		return channeldb.NewChannelPackager(
			f.in.ShortChanID(),
		).AddFwdPkg(tx, pkg)
	}, func() {})
}

// run calls the real processRemoteAdds as a freshly (re)started link would:
// new onion decoder, nothing captured yet.
func (f *c09InFixture) run(pkg *channeldb.FwdPkg) []c09Batch {
	f.batches = nil
	f.in.cfg.DecodeHopIterators = newMockIteratorDecoder().DecodeHopIterators
	f.in.processRemoteAdds(pkg)
	out := f.batches
	f.batches = nil

	return out
}

// c09CheckPackets compares the captured hand-off with the model. want lists
// the package indices expected to be handed over, in order.
func c09CheckPackets(f *c09InFixture, phase string, batches []c09Batch,
	wantReplay bool, want []int, adds []*c09Add, height uint64,
	linkInb models.InboundFee) ([]*htlcPacket, string) {

	var pkts []*htlcPacket
	for _, b := range batches {
		if b.replay != wantReplay {
			return nil, fmt.Sprintf("%s: batch handed to the switch "+
				"with replay=%v", phase, b.replay)
		}
		pkts = append(pkts, b.pkts...)
	}
	if len(batches) > 1 {
		return nil, fmt.Sprintf("%s: %d batches for one package", phase,
			len(batches))
	}

	describe := func() string {
		s := ""
		for _, p := range pkts {
			ref := "nil"
			if p.sourceRef != nil {
				ref = fmt.Sprintf("%d/%d", p.sourceRef.Height,
					p.sourceRef.Index)
			}
			s += fmt.Sprintf("[htlc=%d ref=%s] ", p.incomingHTLCID, ref)
		}

		return s
	}
	if len(pkts) != len(want) {
		return nil, fmt.Sprintf("%s: %d packets handed to the switch, "+
			"expected the ADDs at package indices %v; got %s", phase,
			len(pkts), want, describe())
	}

	for k, p := range pkts {
		ix := want[k]
		a := adds[ix]
		bad := func(field string, got, exp any) string {
			return fmt.Sprintf("%s: packet %d (ADD at package index "+
				"%d, htlc id %d): %s = %v, expected %v; packets: %s",
				phase, k, ix, a.msg.ID, field, got, exp, describe())
		}
		if p.incomingHTLCID != a.msg.ID {
			return nil, bad("incomingHTLCID", p.incomingHTLCID, a.msg.ID)
		}
		if p.sourceRef == nil {
			return nil, bad("sourceRef", nil, "non-nil")
		}
		if p.sourceRef.Height != height || int(p.sourceRef.Index) != ix {
			return nil, bad("sourceRef", fmt.Sprintf("%d/%d",
				p.sourceRef.Height, p.sourceRef.Index),
				fmt.Sprintf("%d/%d", height, ix))
		}
		if p.incomingChanID != f.in.ShortChanID() {
			return nil, bad("incomingChanID", p.incomingChanID,
				f.in.ShortChanID())
		}
		if p.incomingAmount != a.msg.Amount {
			return nil, bad("incomingAmount", p.incomingAmount,
				a.msg.Amount)
		}
		if p.incomingTimeout != a.msg.Expiry {
			return nil, bad("incomingTimeout", p.incomingTimeout,
				a.msg.Expiry)
		}
		if uint64(p.amount) != a.cs.OutAmt {
			return nil, bad("amount", p.amount, a.cs.OutAmt)
		}
		if p.outgoingTimeout != a.cs.OutExp {
			return nil, bad("outgoingTimeout", p.outgoingTimeout,
				a.cs.OutExp)
		}
		if p.outgoingChanID != a.scid {
			return nil, bad("outgoingChanID", p.outgoingChanID, a.scid)
		}
		if !p.outgoingHop.IsLeft() ||
			p.outgoingHop.UnwrapLeftOr(hop.Exit) != a.scid {

			return nil, bad("outgoingHop", p.outgoingHop, a.scid)
		}
		if p.inboundFee != linkInb {
			return nil, bad("inboundFee", p.inboundFee, linkInb)
		}
		if p.obfuscator == nil {
			return nil, bad("obfuscator", nil, "non-nil")
		}
		out, ok := p.htlc.(*lnwire.UpdateAddHTLC)
		if !ok {
			return nil, bad("htlc", fmt.Sprintf("%T", p.htlc),
				"*lnwire.UpdateAddHTLC")
		}
		if uint64(out.Amount) != a.cs.OutAmt ||
			out.Expiry != a.cs.OutExp ||
			out.PaymentHash != a.msg.PaymentHash {

			return nil, bad("outgoing add", fmt.Sprintf("%v/%v/%x",
				out.Amount, out.Expiry, out.PaymentHash[:4]),
				fmt.Sprintf("%v/%v/%x", a.cs.OutAmt, a.cs.OutExp,
					a.msg.PaymentHash[:4]))
		}
	}

	return pkts, ""
}

// c09SamePacket is the metamorphic relation between the first-time and the
// reforwarded packet of one ADD.
func c09SamePacket(a, b *htlcPacket) string {
	oa, _ := a.htlc.(*lnwire.UpdateAddHTLC)
	ob, _ := b.htlc.(*lnwire.UpdateAddHTLC)
	switch {
	case a.incomingChanID != b.incomingChanID:
		return "incomingChanID"
	case a.incomingHTLCID != b.incomingHTLCID:
		return "incomingHTLCID"
	case a.outgoingChanID != b.outgoingChanID:
		return "outgoingChanID"
	case a.outgoingHop != b.outgoingHop:
		return "outgoingHop"
	case a.incomingAmount != b.incomingAmount:
		return "incomingAmount"
	case a.amount != b.amount:
		return "amount"
	case a.incomingTimeout != b.incomingTimeout:
		return "incomingTimeout"
	case a.outgoingTimeout != b.outgoingTimeout:
		return "outgoingTimeout"
	case a.inboundFee != b.inboundFee:
		return "inboundFee"
	case a.sourceRef == nil || b.sourceRef == nil ||
		*a.sourceRef != *b.sourceRef:

		return "sourceRef"
	case oa == nil || ob == nil:
		return "htlc type"
	case oa.Amount != ob.Amount || oa.Expiry != ob.Expiry ||
		oa.PaymentHash != ob.PaymentHash ||
		oa.OnionBlob != ob.OnionBlob:

		return "outgoing add"
	}

	return ""
}

func TestVerifC09LinkInputs(t *testing.T) {
	f := newC09InFixture(t)
	st := vstats.New("TestVerifC09LinkInputs")
	defer st.Flush()
	known := vstats.IsKnown(c09KnownOverflow)
	var height uint64

	rapid.Check(t, func(rt *rapid.T) {
		// The incoming link's policy: the inbound fee is what matters;
		// the outbound part is a decoy (it governs HTLCs *leaving*
		// over this link).
		var linkInb models.InboundFee
		if c09Pct(rt, "link_inb_zero") >= 10 {
			linkInb.Base, linkInb.Rate = c09DrawInbound(rt)
		}
		f.in.cfg.FwrdingPolicy = models.ForwardingPolicy{
			MinHTLCOut: 7_777_777_777, MaxHTLC: 1,
			BaseFee: 123_456, FeeRate: 654_321, TimeLockDelta: 999,
			InboundFee: linkInb,
		}

		// The package.
		n := 1 + c09Pick(rt, "n_adds", 4)
		height++
		id := rapid.Uint64Range(0, 1<<32).Draw(rt, "first_htlc_id")
		adds := make([]*c09Add, n)
		fpParts := []any{linkInb.Base, linkInb.Rate, n, id}
		for i := range adds {
			a := &c09Add{}
			switch p := c09Pct(rt, fmt.Sprintf("kind%d", i)); {
			case p < 72:
				a.kind = c09AddForward
			case p < 86:
				a.kind = c09AddUndecodable
			default:
				a.kind = c09AddExit
			}
			a.cs = c09GenWith(rt, f.fx, false, &linkInb)
			a.scid = lnwire.NewShortChanIDFromInt(
				uint64(2000+c09Pick(rt, fmt.Sprintf("scid%d", i), 50))<<40 |
					uint64(i+1)<<16,
			)
			id += 1 + uint64(c09Pick(rt, fmt.Sprintf("idgap%d", i), 3))
			a.msg = &lnwire.UpdateAddHTLC{
				ChanID: f.in.ChanID(),
				ID:     id,
				Amount: lnwire.MilliSatoshi(a.cs.InAmt),
				Expiry: a.cs.InExp,
			}
			a.msg.PaymentHash[0] = 0xc9
			a.msg.PaymentHash[1] = byte(i + 1)

			fwd := hop.ForwardingInfo{
				NextHop:         hop.NewChannelNextHop(a.scid),
				AmountToForward: lnwire.MilliSatoshi(a.cs.OutAmt),
				OutgoingCLTV:    a.cs.OutExp,
			}
			last := hop.ForwardingInfo{
				NextHop:         hop.NewChannelNextHop(hop.Exit),
				AmountToForward: lnwire.MilliSatoshi(a.cs.OutAmt),
				OutgoingCLTV:    a.cs.OutExp,
			}
			var err error
			switch a.kind {
			case c09AddForward:
				a.msg.OnionBlob, err = generateRoute(
					&hop.Payload{FwdInfo: fwd},
					&hop.Payload{FwdInfo: last},
				)

			case c09AddExit:
				// We are the last hop and the payload asks for
				// more than the HTLC carries: failed back by
				// the link without consulting the registry.
				last.AmountToForward = a.msg.Amount + 1
				a.msg.OnionBlob, err = generateRoute(
					&hop.Payload{FwdInfo: last},
				)

			case c09AddUndecodable:
				// Claims 200 hops; the blob holds fewer.
				a.msg.OnionBlob[2] = 0
				a.msg.OnionBlob[3] = 200
			}
			if err != nil {
				rt.Fatalf("harness: generateRoute: %v", err)
			}
			adds[i] = a
			fpParts = append(fpParts, a.kind, a.cs.fp(false), a.scid,
				a.msg.ID)
		}

		// Restart plan.
		crafted := c09Pct(rt, "crafted_filter") < 40
		craftedFwd := make([]bool, n)
		acked := make([]bool, n)
		for i := range adds {
			craftedFwd[i] = c09Pct(rt, fmt.Sprintf("fwdbit%d", i)) < 65
			acked[i] = c09Pct(rt, fmt.Sprintf("ackbit%d", i)) < 30
			fpParts = append(fpParts, craftedFwd[i], acked[i])
		}
		fpParts = append(fpParts, crafted)

		fail := func(format string, args ...any) {
			desc := ""
			for i, a := range adds {
				desc += fmt.Sprintf("\n  add[%d] %s id=%d amt=%d "+
					"exp=%d -> scid=%v amt=%d cltv=%d fwdbit=%v "+
					"acked=%v", i, a.kindName(), a.msg.ID,
					a.cs.InAmt, a.cs.InExp, a.scid, a.cs.OutAmt,
					a.cs.OutExp, craftedFwd[i], acked[i])
			}
			_ = f.in.channel.RemoveFwdPkgs(height)
			rt.Fatalf("C09 LinkInputs: "+format+"\nlink inbound fee "+
				"%+v, package height %d, crafted=%v%s",
				append(args, linkInb, height, crafted, desc)...)
		}

		// ---- first-time pass -----------------------------------
		if err := f.writePkg(height, adds); err != nil {
			rt.Fatalf("harness: write package: %v", err)
		}
		pkg, err := f.loadPkg(height)
		if err != nil {
			rt.Fatalf("harness: %v", err)
		}
		if pkg.State != channeldb.FwdStateLockedIn {
			rt.Fatalf("harness: fresh package in state %v", pkg.State)
		}
		var wantFirst []int
		for i, a := range adds {
			if a.kind == c09AddForward {
				wantFirst = append(wantFirst, i)
			}
		}
		firstPkts, bad := c09CheckPackets(
			f, "first-time pass", f.run(pkg), false, wantFirst, adds,
			height, linkInb,
		)
		if bad != "" {
			fail("%s", bad)
		}
		firstByIx := make(map[int]*htlcPacket)
		for k, ix := range wantFirst {
			firstByIx[ix] = firstPkts[k]
		}

		disk, err := f.loadPkg(height)
		if err != nil {
			rt.Fatalf("harness: %v", err)
		}
		if disk.State != channeldb.FwdStateProcessed {
			fail("package not marked processed after the first pass "+
				"(state %v)", disk.State)
		}
		for i := range adds {
			_, fwded := firstByIx[i]
			if disk.FwdFilter.Contains(uint16(i)) != fwded {
				fail("persisted FwdFilter bit %d is %v but the ADD "+
					"was handed to the switch: %v", i,
					disk.FwdFilter.Contains(uint16(i)), fwded)
			}
		}

		// ---- "restart" -----------------------------------------
		if crafted {
			// A package whose recorded forwarding decision is a
			// generated subset (as left behind by a run in which
			// some ADDs were not forwarded).
			if err := f.in.channel.RemoveFwdPkgs(height); err != nil {
				rt.Fatalf("harness: remove: %v", err)
			}
			if err := f.writePkg(height, adds); err != nil {
				rt.Fatalf("harness: rewrite package: %v", err)
			}
			filter := channeldb.NewPkgFilter(uint16(n))
			for i := range adds {
				if craftedFwd[i] {
					filter.Set(uint16(i))
				}
			}
			err := f.in.channel.SetFwdFilter(height, filter)
			if err != nil {
				rt.Fatalf("harness: set filter: %v", err)
			}
		}
		nAcked := 0
		for i := range adds {
			if !acked[i] {
				continue
			}
			nAcked++
			err := f.in.channel.AckAddHtlcs(channeldb.AddRef{
				Height: height, Index: uint16(i),
			})
			if err != nil {
				rt.Fatalf("harness: ack: %v", err)
			}
		}
		pkg2, err := f.loadPkg(height)
		if err != nil {
			rt.Fatalf("harness: %v", err)
		}
		// (Fully acked packages reload as "completed": nothing to do.)
		if pkg2.State != channeldb.FwdStateProcessed &&
			!(pkg2.State == channeldb.FwdStateCompleted && nAcked == n) {

			rt.Fatalf("harness: reloaded package in state %v",
				pkg2.State)
		}

		// ---- reforward pass ------------------------------------
		var wantRe []int
		shifted := false
		seenAcked := false
		for i, a := range adds {
			if acked[i] {
				seenAcked = true
				continue
			}
			inFilter := a.kind == c09AddForward
			if crafted {
				inFilter = craftedFwd[i]
			}
			if a.kind == c09AddForward && inFilter {
				wantRe = append(wantRe, i)
				if seenAcked {
					shifted = true
				}
			}
		}
		rePkts, bad := c09CheckPackets(
			f, "reforward pass", f.run(pkg2), true, wantRe, adds,
			height, linkInb,
		)
		if bad != "" {
			fail("%s", bad)
		}
		for k, ix := range wantRe {
			if d := c09SamePacket(firstByIx[ix], rePkts[k]); d != "" {
				fail("reforwarded packet of ADD %d differs from its "+
					"first-time packet in %s", ix, d)
			}
		}
		after, err := f.loadPkg(height)
		if err != nil {
			rt.Fatalf("harness: %v", err)
		}
		if !after.FwdFilter.Equal(pkg2.FwdFilter) {
			fail("the reforward pass changed the persisted FwdFilter")
		}

		// ---- end to end: the decision on what was handed over ---
		labels := []string{
			fmt.Sprintf("in:adds:%d", n),
			fmt.Sprintf("in:first:%d", len(firstPkts)),
			fmt.Sprintf("in:reforwarded:%d", len(rePkts)),
			fmt.Sprintf("in:acked:%d", nAcked),
		}
		if crafted {
			labels = append(labels, "in:crafted_filter")
		}
		if shifted {
			labels = append(labels, "in:reforward_behind_acked")
		}
		if linkInb != (models.InboundFee{}) {
			labels = append(labels, "in:inbound_fee_nonzero")
		}
		decide := func(phase string, ix int, p *htlcPacket) {
			a := adds[ix]
			c := a.cs
			if c.heightsWrap() {
				st.Count("outside_domain", 1)
				return
			}
			if c.inOverflowClass() {
				if known {
					st.Known(c09KnownOverflow)
					st.Count("excluded_known", 1)
					return
				}
				st.Count("overflow_class", 1)
			}
			out := c09Apply(f.fx, c)
			got := out.CheckHtlcForward(
				a.msg.PaymentHash, p.incomingAmount, p.amount,
				p.incomingTimeout, p.outgoingTimeout, p.inboundFee,
				c.Height, p.outgoingChanID, nil,
			)
			// Reference from the generated ADD, payload and the
			// configured inbound fee - not from the packet.
			ref := bigref.CheckForward(c.policy(), c.limits(),
				bigref.Forward{
					IncomingAmt:    c.InAmt,
					OutgoingAmt:    c.OutAmt,
					IncomingExpiry: c.InExp,
					OutgoingExpiry: c.OutExp,
					Height:         c.Height,
					Inbound: bigref.InboundFee{
						Base: linkInb.Base, Rate: linkInb.Rate,
					},
				})
			ls, bad := c09Judge(c, got, &ref, bigref.ForwardRules)
			if bad != "" {
				fail("%s, ADD %d: decision on the handed-over "+
					"packet: %s\ncase: %+v", phase, ix, bad, *c)
			}
			for _, l := range ls {
				if l == "accept" || l == "reject" {
					labels = append(labels, "in:"+phase+":"+l)
				}
			}
		}
		for k, ix := range wantFirst {
			decide("first", ix, firstPkts[k])
		}
		for k, ix := range wantRe {
			decide("reforward", ix, rePkts[k])
		}

		if err := f.in.channel.RemoveFwdPkgs(height); err != nil {
			rt.Fatalf("harness: remove: %v", err)
		}

		nontrivial := len(rePkts) > 0 &&
			(linkInb != (models.InboundFee{}) || shifted)
		st.Case(vstats.FP(fpParts...), nontrivial, labels, map[string]any{
			"inbound_fee": linkInb, "adds": n, "first": wantFirst,
			"reforwarded": wantRe, "crafted": crafted,
		})
	})
}
