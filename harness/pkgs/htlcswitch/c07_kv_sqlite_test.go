//go:build verif && kvdb_sqlite

package htlcswitch

import "github.com/lightningnetwork/lnd/kvdb"

// c07KVName names the key-value backend the C07 harness runs on: with the
// kvdb_sqlite build tag the circuit map and the channel database live on
// lnd's SQL-backed kvdb (sqlbase over sqlite).
const c07KVName = "sqlite"

func c07OpenKV(dir, file string) (kvdb.Backend, error) {
	return kvdb.StartSqliteTestBackend(dir, file+".sqlite", "c07")
}
