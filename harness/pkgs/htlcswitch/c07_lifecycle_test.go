//go:build verif

package htlcswitch

// C07 part 2b: link life cycle. The same world as TestVerifC07Switch (real
// Switch, real mail orchestrator and mailboxes, real channeldb; links played
// by the harness), but the links are no longer registered once and for all
// right after Switch.Start:
//
//   - after a (re)start of the switch the links are added lazily, at generated
//     later points. Switch.Start re-forwards the un-acked settles/fails of the
//     outgoing channels' forwarding packages (the harness writes a forwarding
//     package for every response of a remote peer and acks it with the
//     commitment of the incoming link, as lnwallet does) and the stored
//     contract resolution messages; those responses, and the ones relayed at
//     run time before the incoming channel's link exists, are parked by the
//     mail orchestrator ("unclaimed") and have to be handed over when the link
//     is added: exactly once (not lost, not doubled);
//   - relink: RemoveLink followed, at a generated later point, by AddLink of
//     the same channel with a new link object (peer reconnect), any number of
//     times. The harness link does what channelLink does: Start = trim the
//     keystones above the committed index + reset wire messages + reset the
//     packet courier (every un-acked packet is handed over again: legitimate),
//     replay of the un-acked ADDs of its forwarding packages; commit of a
//     response = ack in the outgoing forwarding package, DeleteCircuits,
//     MailBox.AckPacket; Stop = reset the packet courier;
//   - responses relayed while the link is removed go to the channel's mailbox,
//     which outlives the link.
//
// Oracle on top of the prediction of TestVerifC07Switch: per incoming HTLC,
// once the incoming link committed and acked a response, no settle/fail for
// it may be handed over again, however often the link is re-added; a response
// relayed while the link was absent must be in the mailbox after AddLink.

import (
	"errors"
	"fmt"
	"os"
	"sort"
	"strings"
	"testing"
	"time"

	"github.com/lightningnetwork/lnd/channeldb"
	"github.com/lightningnetwork/lnd/contractcourt"
	"github.com/lightningnetwork/lnd/internal/verif/vstats"
	"github.com/lightningnetwork/lnd/lnwire"
	"pgregory.net/rapid"
)

func (w *c07World) findOpen(out CircuitKey) *c07Htlc {
	for _, in := range w.order {
		h := w.htlcs[in]
		if h.exists && h.out != nil && *h.out == out {
			return h
		}
	}

	return nil
}

// predictStart: what Switch.Start relays on its own. No link exists yet, so
// everything bound for an incoming channel is parked.
func (w *c07World) predictStart(exp *c07Expect) {
	for c := 1; c <= c07NumChans; c++ {
		w.live[c], w.bound[c], w.hadParked[c] = false, false, false
	}
	for _, in := range w.order {
		h := w.htlcs[in]
		h.unclaimed, h.wasParked, h.parkedFin = false, false, false
	}
	// acks queued in memory die with the switch
	for c := 1; c <= c07NumChans; c++ {
		for _, fe := range w.fwd[c] {
			fe.queued = false
		}
	}

	// reforwardResponses: channels in the order of FetchAllChannels,
	// packages by height, un-acked settles/fails by index.
	for c := 1; c <= c07NumChans; c++ {
		for _, fe := range w.fwd[c] {
			if fe.acked {
				continue
			}
			h := w.findOpen(fe.out)
			switch {
			case h == nil:
				// circuit gone: nothing to relay, ack queued
				w.queueAck(fe)
				w.label("start:refwd_circuit_gone")

			case h.closed:

			case h.in.ChanID.ToUint64() == 0:
				w.resolveLocal(h, exp)
				fe.acked = true
				w.label("start:refwd_local")

			default:
				h.closed = true
				ref := fe.ref
				h.wantDest = &ref
				exp.respond(h)
				w.label("start:refwd_fwdpkg")
				if h.dupTick {
					// the cell of seeded C08g: duplicate while
					// un-committed, ack tick, restart: still
					// to be re-forwarded
					w.label("lc:refwd_after_tick_after_dup_" +
						"uncommitted")
				}
			}
		}
	}

	for _, in := range w.order {
		w.htlcs[in].dupClosing, w.htlcs[in].dupTick = false, false
	}

	// reforwardResolutions: the store is walked in key order.
	var keys []CircuitKey
	for k := range w.resMsgs {
		keys = append(keys, k)
	}
	sort.Slice(keys, func(i, j int) bool {
		a, b := keys[i], keys[j]
		if a.ChanID != b.ChanID {
			return a.ChanID.ToUint64() < b.ChanID.ToUint64()
		}

		return a.HtlcID < b.HtlcID
	})
	for _, k := range keys {
		h := w.findOpen(k)
		switch {
		case h == nil:
			delete(w.resMsgs, k)
			w.label("start:resmsg_purged")

		case h.closed:
			w.label("start:resmsg_dup_closing")

		case h.in.ChanID.ToUint64() == 0:
			w.resolveLocal(h, exp)
			w.label("start:resmsg_local")

		default:
			h.closed = true
			h.wantDest = nil
			exp.respond(h)
			w.label("start:refwd_resolution")
		}
	}
}

// plugSome adds each link right away with probability p/10.
func (w *c07World) plugSome(t *rapid.T, p int) error {
	for c := 1; c <= c07NumChans; c++ {
		if rapid.IntRange(0, 9).Draw(t, "plugNow") >= p {
			continue
		}
		if err := w.addLink(t, c); err != nil {
			return err
		}
	}

	return nil
}

// addLink: the peer of channel c (re)connects.
func (w *c07World) addLink(t *rapid.T, c int) error {
	if err := w.plugLink(c); err != nil {
		return fmt.Errorf("AddLink(%d): %v", c, err)
	}
	first := !w.bound[c]
	trimmed := w.trimModel(c)
	w.live[c], w.bound[c] = true, true

	exp := &c07Expect{}
	parked := 0
	for _, in := range w.order {
		h := w.htlcs[in]
		if in.ChanID.ToUint64() != uint64(c) {
			continue
		}
		if h.respBox {
			// un-acked response in the mailbox: handed over
			// again by the reset courier (legitimate)
			w.label("lc:relink_redelivers_unacked_resp")
		}
		if h.parkedFin {
			w.label("lc:relink_after_parked_resp_acked")
		}
		if h.resolved && !first {
			w.label("lc:relink_after_resp_acked")
		}
		if !h.unclaimed {
			continue
		}
		// NOT LOST: the orchestrator promises to deliver the parked
		// packets at BindLiveShortChanID.
		h.unclaimed = false
		h.wasParked = true
		w.hadParked[c] = true
		parked++
		if !h.respBox {
			h.respBox = true
			exp.resp = append(exp.resp, c07KeyStr(in))
		}
	}
	w.logf("addLink(link%d) first=%v parked=%d trimmed=%d", c, first,
		parked, trimmed)
	switch {
	case first:
		w.label("lc:add_first")
	default:
		w.label("lc:relink")
	}
	if parked > 0 {
		w.label("lc:parked_delivered")
	}
	if trimmed > 0 {
		w.label("lc:relink_trimmed")
	}
	if err := w.settle(exp); err != nil {
		return err
	}

	// resolveFwdPkgs: the started link replays its un-acked ADDs.
	if rapid.IntRange(0, 9).Draw(t, "replayAtStart") < 7 {
		return w.replayAll(c)
	}

	return nil
}

func (w *c07World) actAddLink(t *rapid.T) error {
	var down, good []int
	for c := 1; c <= c07NumChans; c++ {
		if w.live[c] {
			continue
		}
		down = append(down, c)
		for _, in := range w.order {
			h := w.htlcs[in]
			if in.ChanID.ToUint64() == uint64(c) &&
				(h.unclaimed || h.parkedFin || h.respBox) {

				good = append(good, c)
				break
			}
		}
	}
	if len(down) == 0 {
		return nil
	}
	c := 0
	if len(good) > 0 && rapid.IntRange(0, 9).Draw(t, "addUseful") < 7 {
		c = rapid.SampledFrom(good).Draw(t, "addLink")
	} else {
		c = rapid.SampledFrom(down).Draw(t, "addLink")
	}

	return w.addLink(t, c)
}

// actRemoveLink: the peer of channel c disconnects.
func (w *c07World) actRemoveLink(t *rapid.T) error {
	c := w.drawLink(t, "removeLink", func(c int) bool {
		for _, in := range w.order {
			h := w.htlcs[in]
			if in.ChanID.ToUint64() == uint64(c) &&
				(h.parkedFin || h.respBox) {

				return true
			}
		}

		return false
	})
	if c == 0 {
		return nil
	}
	w.sw.RemoveLink(c07ChanID(uint64(c)))
	w.live[c] = false
	w.links[c] = nil
	w.logf("removeLink(link%d)", c)
	w.label("lc:remove")

	return w.settle(&c07Expect{})
}

// actResolution: the chain arbitrator resolved an outgoing HTLC on chain
// (outgoing channel force closed, so it has no link) and tells the switch,
// which stores the message and relays it like a response of the channel.
func (w *c07World) actResolution(t *rapid.T) error {
	var cand, gone []CircuitKey
	for _, in := range w.order {
		h := w.htlcs[in]
		if !h.exists || h.out == nil || w.resMsgs[*h.out] {
			continue
		}
		oc := h.out.ChanID.ToUint64()
		if !w.live[oc] && h.out.HtlcID < w.ls[oc].watermark {
			cand = append(cand, *h.out)
		}
	}
	for _, k := range w.resolvedOut {
		if !w.live[k.ChanID.ToUint64()] && !w.resMsgs[k] {
			gone = append(gone, k)
		}
	}
	var out CircuitKey
	r := rapid.IntRange(0, 9).Draw(t, "resLive")
	switch {
	case len(cand) > 0 && (r < 8 || len(gone) == 0):
		out = rapid.SampledFrom(cand).Draw(t, "resOut")
	case len(gone) > 0:
		out = rapid.SampledFrom(gone).Draw(t, "resGone")
	default:
		return nil
	}
	settle := rapid.Bool().Draw(t, "settle")
	msg := contractcourt.ResolutionMsg{
		SourceChan: out.ChanID,
		HtlcIndex:  out.HtlcID,
	}
	if settle {
		var pre [32]byte
		msg.PreImage = &pre
	} else {
		msg.Failure = &lnwire.FailPermanentChannelFailure{}
	}
	w.resMsgs[out] = true

	exp := &c07Expect{}
	h := w.findOpen(out)
	v := ""
	switch {
	case h == nil:
		v = "circuit_gone"
	case h.closed:
		v = "dup_closing"
	case h.in.ChanID.ToUint64() == 0:
		v = "first_local"
		w.resolveLocal(h, exp)
	default:
		v = "first"
		h.closed = true
		h.wantDest = nil
		exp.respond(h)
	}
	w.label("resolution:" + v)
	w.logf("resolution(%s/%v)=%s", c07KeyStr(out), settle, v)

	if err := w.sw.ProcessContractResolution(msg); err != nil {
		return fmt.Errorf("ProcessContractResolution: %v", err)
	}

	return w.settle(exp)
}

// actAckTick: the switch's AckEventTicker fires. The forwarder persists the
// settle/fail acks it queued in memory (SwitchPackager.AckSettleFails); the
// barrier of settle() returns after that, both run on the forwarder goroutine.
// Model: exactly the acks of responses whose circuit was already gone are
// persisted, never the one of a response whose circuit is open or closing
// (the incoming link has not committed it; after a restart it must be
// re-forwarded from the package).
func (w *c07World) actAckTick(t *rapid.T) error {
	select {
	case w.ackTicker.Force <- time.Now():
	case <-w.sw.quit:
		return errors.New("switch quit")
	}
	n := 0
	for c := 1; c <= c07NumChans; c++ {
		for _, fe := range w.fwd[c] {
			if fe.queued {
				fe.queued, fe.acked = false, true
				n++
			}
		}
	}
	dup := 0
	for _, in := range w.order {
		h := w.htlcs[in]
		if h.dupClosing && h.exists && !h.resolved {
			h.dupTick = true
			dup++
		}
	}
	w.logf("ackTick persisted=%d dupUncommitted=%d", n, dup)
	w.label("lc:ack_tick")
	if n > 0 {
		w.label("lc:tick_persisted_acks")
	}
	if dup > 0 {
		w.label("lc:tick_after_dup_uncommitted")
	}

	return w.settle(&c07Expect{})
}

// productive lists the actions that can advance some HTLC along the pipeline
// in the current state (used by the guided half of the generator).
func (w *c07World) productive() []string {
	var (
		addLink, removeLink, inCommit, respond, outProcess bool
		resolution                                         bool
		inFlight, restartUseful, restartHarmful            int
		ackTick, dupTicked                                 bool
	)
	for c := 1; c <= c07NumChans; c++ {
		if !w.live[c] {
			continue
		}
		if len(w.boxResps(c)) > 0 {
			inCommit = true
		}
		for _, p := range w.boxAdds(c) {
			if !w.ls[c].accepted[p.inKey()] {
				outProcess = true
			}
		}
	}
	for _, in := range w.order {
		h := w.htlcs[in]
		ic := in.ChanID.ToUint64()
		if ic != 0 {
			if !w.live[ic] && (h.unclaimed || h.parkedFin) {
				addLink = true
			}
			if w.live[ic] && h.parkedFin {
				removeLink = true
			}
			if h.unclaimed || (h.wasParked && !h.resolved) ||
				h.parkedFin {

				restartHarmful++
			}
		}
		if !h.exists {
			continue
		}
		inFlight++
		if h.out == nil {
			continue
		}
		oc := h.out.ChanID.ToUint64()
		if h.out.HtlcID >= w.ls[oc].watermark {
			continue
		}
		if ic != 0 {
			restartUseful++
		}
		if !h.closed && w.live[oc] {
			respond = true
		}
		// towards the duplicate / tick / restart cell
		if ic != 0 && h.closed && !h.resolved && w.fwdByOut[*h.out] != nil {
			switch {
			case h.dupTick:
				dupTicked = true
			case h.dupClosing:
				ackTick = true
			case w.live[oc]:
				respond = true
			}
		}
		if !h.closed && !w.live[oc] && !w.resMsgs[*h.out] {
			resolution = true
		}
	}
	var acts []string
	if addLink {
		acts = append(acts, "addLink")
	}
	if removeLink {
		acts = append(acts, "removeLink")
	}
	if inCommit {
		acts = append(acts, "inCommit")
	}
	if respond {
		acts = append(acts, "respond")
	}
	if outProcess {
		acts = append(acts, "outProcess")
	}
	if resolution {
		acts = append(acts, "resolution")
	}
	for c := 1; c <= c07NumChans && !ackTick; c++ {
		for _, fe := range w.fwd[c] {
			// a legitimately queued ack waits for the ticker
			ackTick = ackTick || fe.queued
		}
	}
	if ackTick {
		acts = append(acts, "ackTick")
	}
	if dupTicked || restartUseful > 0 && restartHarmful == 0 {
		acts = append(acts, "restart")
	}
	if inFlight < 3 {
		acts = append(acts, "forward")
	}

	return acts
}

func TestVerifC07LinkLifecycle(t *testing.T) {
	st := vstats.New("TestVerifC07LinkLifecycle")
	defer st.Flush()
	maxSteps := vstats.EnvInt("VERIF_C07_LCSTEPS", 60)

	rapid.Check(t, func(t *rapid.T) {
		dir, err := os.MkdirTemp("", "c07lc")
		if err != nil {
			t.Fatalf("tempdir: %v", err)
		}
		defer os.RemoveAll(dir)

		w := &c07World{
			lc:       true,
			dir:      dir,
			rec:      &c07Recorder{},
			ntf:      &c07Notifier{sig: make(chan struct{}, 1)},
			htlcs:    make(map[CircuitKey]*c07Htlc),
			seenResp: make(map[*htlcPacket]bool),
			labels:   make(map[string]bool),
			fwdByOut: make(map[CircuitKey]*c07FwdEntry),
			fwdByRef: make(map[channeldb.SettleFailRef]*c07FwdEntry),
			resMsgs:  make(map[CircuitKey]bool),
		}
		for c := 1; c <= c07NumChans; c++ {
			w.ls[c] = &c07LinkState{
				eligible: true,
				accepted: make(map[CircuitKey]bool),
			}
		}
		if err := w.startSwitch(); err != nil {
			t.Fatalf("start switch: %v", err)
		}
		defer func() { _ = w.stopSwitch() }()

		fail := func(i int, err error) {
			if errors.Is(err, errC07Inconclusive) {
				st.Count("inconclusive", 1)
				t.Skip("local payment result not seen in 60s")
			}
			t.Fatalf("step %d: %v\nops:\n  %s", i, err,
				strings.Join(w.ops, "\n  "))
		}
		if err := w.plugSome(t, 8); err != nil {
			fail(-1, err)
		}

		steps := rapid.IntRange(8, maxSteps).Draw(t, "steps")
		for i := 0; i < steps; i++ {
			// Guided generation: the interesting histories are long
			// pipelines (forward, accept, commit, respond, restart,
			// add link, commit response, remove link, add link), so
			// in 6 of 10 steps the action is drawn among those that
			// can currently advance some HTLC; otherwise it is drawn
			// from the fixed distribution.
			act := ""
			if prod := w.productive(); len(prod) > 0 &&
				rapid.IntRange(0, 9).Draw(t, "guided") < 6 {

				act = rapid.SampledFrom(prod).Draw(t, "guidedAct")
			} else {
				kind := rapid.IntRange(0, 99).Draw(t, "action")
				switch {
				case kind < 16:
					act = "forward"
				case kind < 21:
					act = "sendLocal"
				case kind < 35:
					act = "outProcess"
				case kind < 39:
					act = "outCommit"
				case kind < 53:
					act = "respond"
				case kind < 63:
					act = "inCommit"
				case kind < 66:
					act = "outRestart"
				case kind < 69:
					act = "replayAll"
				case kind < 71:
					act = "toggle"
				case kind < 78:
					act = "restart"
				case kind < 88:
					act = "addLink"
				case kind < 93:
					act = "removeLink"
				case kind < 96:
					act = "ackTick"
				default:
					act = "resolution"
				}
			}
			var err error
			switch act {
			case "forward":
				err = w.actForward(t)
			case "sendLocal":
				err = w.actSendLocal(t)
			case "outProcess":
				err = w.actOutProcess(t)
			case "outCommit":
				err = w.actOutCommit(t)
			case "respond":
				err = w.actRespond(t)
			case "inCommit":
				err = w.actInCommit(t)
			case "outRestart":
				err = w.actOutRestart(t)
			case "replayAll":
				err = w.actReplayAll(t)
			case "toggle":
				err = w.actToggle(t)
			case "restart":
				err = w.actSwitchRestart(t)
			case "addLink":
				err = w.actAddLink(t)
			case "removeLink":
				err = w.actRemoveLink(t)
			case "ackTick":
				err = w.actAckTick(t)
			default:
				err = w.actResolution(t)
			}
			if err != nil {
				fail(i, err)
			}
		}
		if err := w.stopSwitch(); err != nil {
			t.Fatalf("final stop: %v\nops:\n  %s", err,
				strings.Join(w.ops, "\n  "))
		}

		// Non-trivial: the life cycle mattered for a response: one was
		// parked and handed over at AddLink, one was relayed while
		// the link was removed, or a link was re-added while it had
		// an un-acked response / after it had acked one.
		nontrivial := w.labels["lc:parked_delivered"] ||
			w.labels["lc:resp_while_link_removed"] ||
			w.labels["lc:relink_redelivers_unacked_resp"] ||
			w.labels["lc:relink_after_resp_acked"]

		labels := make([]string, 0, len(w.labels))
		for l := range w.labels {
			labels = append(labels, l)
		}
		sort.Strings(labels)
		var fp []any
		for _, o := range w.ops {
			fp = append(fp, o)
		}
		var sample any
		if nontrivial && st.WantSample() {
			sample = w.ops
		}
		st.Case(vstats.FP(fp...), nontrivial, labels, sample)
	})
}
