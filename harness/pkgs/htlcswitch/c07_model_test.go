//go:build verif

package htlcswitch

// C07: reference model of the circuit map, written from the documented
// decision table (interface comments of CircuitMap / CircuitModifier and
// the doc comments of CommitCircuits, OpenCircuits, TrimOpenCircuits,
// CloseCircuit, FailCircuit, DeleteCircuits, cleanClosedChannels,
// restoreMemState, trimAllOpenCircuits) -- not from the code paths.
//
// Three maps: durable `circ` (circuit-adds bucket), durable `ks`
// (circuit-keystones bucket, out -> in), volatile `closed`, plus a `loaded`
// bit per circuit.

import (
	"errors"
	"fmt"
	"sort"
	"sync"

	"github.com/btcsuite/btcwallet/walletdb"
	"github.com/lightningnetwork/lnd/channeldb"
	"github.com/lightningnetwork/lnd/chanstate"
	"github.com/lightningnetwork/lnd/kvdb"
	"github.com/lightningnetwork/lnd/lnwire"
)

var c07ErrInjected = errors.New("c07: injected write failure")

// ---------------------------------------------------------------------------
// faultdb: kvdb.Backend wrapper that counts write transactions and can fail
// one. The failing transaction runs the closure against the real backend and
// then returns an error, so the backend rolls it back like a failed commit.
// ---------------------------------------------------------------------------

type c07FaultDB struct {
	kvdb.Backend

	mu     sync.Mutex
	armed  bool // fail the next write transaction
	failAt int  // fail the failAt-th write transaction (1-based), 0 = off
	writes int
	fired  bool
}

func (d *c07FaultDB) shouldFail() bool {
	d.mu.Lock()
	defer d.mu.Unlock()

	d.writes++
	if d.armed {
		d.armed = false
		d.fired = true

		return true
	}
	if d.failAt > 0 && d.writes == d.failAt {
		d.fired = true

		return true
	}

	return false
}

func (d *c07FaultDB) arm() {
	d.mu.Lock()
	d.armed, d.fired = true, false
	d.mu.Unlock()
}

// disarm clears a pending fault and reports whether it fired.
func (d *c07FaultDB) disarm() bool {
	d.mu.Lock()
	defer d.mu.Unlock()
	f := d.fired
	d.armed, d.fired = false, false

	return f
}

func (d *c07FaultDB) Update(f func(tx kvdb.RwTx) error, reset func()) error {
	if d.shouldFail() {
		return d.Backend.Update(func(tx kvdb.RwTx) error {
			if err := f(tx); err != nil {
				return err
			}

			return c07ErrInjected
		}, reset)
	}

	return d.Backend.Update(f, reset)
}

// c07FaultBatchDB additionally exposes the backend's Batch method, so that
// kvdb.Batch takes bbolt's real batching path (10 ms coalescing window).
type c07FaultBatchDB struct {
	*c07FaultDB
}

func (d c07FaultBatchDB) Batch(f func(tx walletdb.ReadWriteTx) error) error {
	inner, ok := d.Backend.(walletdb.BatchDB)
	if !ok {
		// A backend without a batch path (the SQL-backed kvdb):
		// kvdb.Batch falls back to a plain Update there.
		return d.c07FaultDB.Update(f, func() {})
	}
	if d.shouldFail() {
		return inner.Batch(func(tx walletdb.ReadWriteTx) error {
			if err := f(tx); err != nil {
				return err
			}

			return c07ErrInjected
		})
	}

	return inner.Batch(f)
}

// ---------------------------------------------------------------------------
// synthesized channel records for FetchAllOpenChannels
// ---------------------------------------------------------------------------

// c07ChanStore answers only RemoteCommitChainTip, which is all that
// OpenChannel.NextLocalHtlcIndex consults.
type c07ChanStore struct {
	chanstate.Store
	tip *chanstate.CommitDiff
}

func (s *c07ChanStore) RemoteCommitChainTip(
	*chanstate.OpenChannel) (*chanstate.CommitDiff, error) {

	if s.tip == nil {
		return nil, chanstate.ErrNoPendingCommit
	}

	return s.tip, nil
}

// c07OpenChan builds an open channel whose NextLocalHtlcIndex() is next,
// either through a pending remote commit (viaTip) or through the locked-in
// remote commitment.
func c07OpenChan(scid uint64, pending bool, next uint64,
	viaTip bool, flavour ...int) *chanstate.OpenChannel {

	st := &c07ChanStore{}
	ch := &chanstate.OpenChannel{
		ShortChannelID: lnwire.NewShortChanIDFromInt(scid),
		IsPending:      pending,
		Db:             st,
	}
	// Channel flavour: the identifier the links key their keystones by is
	// ShortChanID() for every kind of channel (for a zero-conf channel that
	// is its alias, before and after the funding transaction confirms), so
	// the roll-back of uncommitted keystones must not depend on it.
	if len(flavour) > 0 {
		switch flavour[0] {
		case c07FlavScidAlias:
			ch.ChanType |= chanstate.ScidAliasChanBit
		case c07FlavZeroConf:
			ch.ChanType |= chanstate.ZeroConfBit |
				chanstate.ScidAliasChanBit
		case c07FlavZeroConfConfirmed:
			ch.ChanType |= chanstate.ZeroConfBit |
				chanstate.ScidAliasChanBit
			ch.SetConfirmedScidForStore(
				lnwire.NewShortChanIDFromInt(scid + 1000),
			)
		}
	}
	if viaTip {
		// The locked-in commitment lags behind the pending one.
		st.tip = &chanstate.CommitDiff{}
		st.tip.Commitment.LocalHtlcIndex = next
		if next > 0 {
			ch.RemoteCommitment.LocalHtlcIndex = next - 1
		}
	} else {
		ch.RemoteCommitment.LocalHtlcIndex = next
	}

	return ch
}

// ---------------------------------------------------------------------------
// model
// ---------------------------------------------------------------------------

type c07Circ struct {
	in     CircuitKey
	hash   [32]byte
	inAmt  lnwire.MilliSatoshi
	outAmt lnwire.MilliSatoshi
	addRef channeldb.AddRef
	local  bool // no error encrypter (locally initiated)

	out    *CircuitKey
	loaded bool

	// ptr is the exact object that received the Adds verdict (nil once
	// the map has been reloaded from disk).
	ptr *PaymentCircuit
}

type c07Model struct {
	circ   map[CircuitKey]*c07Circ
	ks     map[CircuitKey]CircuitKey // out -> in
	closed map[CircuitKey]bool
}

func c07NewModel() *c07Model {
	return &c07Model{
		circ:   make(map[CircuitKey]*c07Circ),
		ks:     make(map[CircuitKey]CircuitKey),
		closed: make(map[CircuitKey]bool),
	}
}

type c07Verdict int

const (
	c07Add c07Verdict = iota
	c07DropKeystone
	c07DropInMem
	c07FailLoaded
)

func (v c07Verdict) String() string {
	return [...]string{"add", "drop_keystone", "drop_inmem",
		"fail_loaded"}[v]
}

// commitVerdicts evaluates the documented table for a batch, in order. It
// does not modify the model; apply does.
//
//	unknown incoming key                  -> add (forward)
//	known, has keystone                   -> drop
//	known, no keystone, not loaded        -> drop (still in a mailbox)
//	known, no keystone, loaded from disk  -> fail back
func (m *c07Model) commitVerdicts(batch []*c07Circ) []c07Verdict {
	out := make([]c07Verdict, len(batch))
	inBatch := make(map[CircuitKey]bool)
	for i, p := range batch {
		ex, ok := m.circ[p.in]
		switch {
		case !ok && !inBatch[p.in]:
			out[i] = c07Add
			inBatch[p.in] = true

		case !ok:
			// added earlier in this very batch: in memory, no
			// keystone, not loaded.
			out[i] = c07DropInMem

		case ex.out != nil:
			out[i] = c07DropKeystone

		case !ex.loaded:
			out[i] = c07DropInMem

		default:
			out[i] = c07FailLoaded
		}
	}

	return out
}

func (m *c07Model) applyCommit(batch []*c07Circ, v []c07Verdict) {
	for i, p := range batch {
		if v[i] == c07Add {
			m.circ[p.in] = p
		}
	}
}

// openErrors returns the set of errors that the batch may be rejected
// with (empty: must succeed). All-or-nothing.
func (m *c07Model) openErrors(batch []Keystone) map[error]bool {
	errs := make(map[error]bool)
	for _, k := range batch {
		if _, ok := m.ks[k.OutKey]; ok {
			errs[ErrDuplicateKeystone] = true
		}
		if _, ok := m.circ[k.InKey]; !ok {
			errs[ErrUnknownCircuit] = true
		}
	}

	return errs
}

func (m *c07Model) applyOpen(batch []Keystone) {
	for _, k := range batch {
		out := k.OutKey
		m.circ[k.InKey].out = &out
		m.ks[k.OutKey] = k.InKey
	}
}

// trim removes the keystones of chanID with htlc id >= start, returning the
// affected circuits to half-open. Returns the number removed.
func (m *c07Model) trim(chanID lnwire.ShortChannelID, start uint64) int {
	n := 0
	for out, in := range m.ks {
		if out.ChanID != chanID || out.HtlcID < start {
			continue
		}
		delete(m.ks, out)
		if c, ok := m.circ[in]; ok {
			c.out = nil
		}
		n++
	}

	return n
}

func (m *c07Model) closeOut(out CircuitKey) (*c07Circ, error) {
	in, ok := m.ks[out]
	if !ok {
		return nil, ErrUnknownCircuit
	}
	if m.closed[in] {
		return nil, ErrCircuitClosing
	}
	m.closed[in] = true

	return m.circ[in], nil
}

func (m *c07Model) failIn(in CircuitKey) (*c07Circ, error) {
	c, ok := m.circ[in]
	if !ok {
		return nil, ErrUnknownCircuit
	}
	if m.closed[in] {
		return nil, ErrCircuitClosing
	}
	m.closed[in] = true

	return c, nil
}

func (m *c07Model) del(keys []CircuitKey) {
	for _, in := range keys {
		c, ok := m.circ[in]
		if !ok {
			continue
		}
		if c.out != nil {
			delete(m.ks, *c.out)
		}
		delete(m.circ, in)
		delete(m.closed, in)
	}
}

// outIDs returns the sorted htlc ids of the keystones on chanID.
func (m *c07Model) outIDs(chanID lnwire.ShortChannelID) []uint64 {
	var ids []uint64
	for out := range m.ks {
		if out.ChanID == chanID {
			ids = append(ids, out.HtlcID)
		}
	}
	sort.Slice(ids, func(i, j int) bool { return ids[i] < ids[j] })

	return ids
}

// c07ValidStart returns the smallest s' >= s such that the ids >= s' are
// either empty or a gap-free run beginning at s'. This is the documented
// caller contract of TrimOpenCircuits ("Outgoing htlc id's must be assigned
// in order, so there should never be disjoint segments of keystones to
// trim"): everything at or above the next unallocated index was opened in one
// run and nothing of it can have been resolved yet.
func c07ValidStart(ids []uint64, s uint64) uint64 {
	for cand := s; ; cand++ {
		ok, any := true, false
		exp := cand
		for _, id := range ids {
			if id < cand {
				continue
			}
			any = true
			if id != exp {
				ok = false
				break
			}
			exp++
		}
		if !any || ok {
			return cand
		}
	}
}

type c07ChanStatus int

const (
	c07StOpen c07ChanStatus = iota
	c07StOpenPending
	c07StClosed
	c07StClosedPending
	c07StAbsent
)

func (s c07ChanStatus) String() string {
	return [...]string{"open", "open_pending", "closed", "closed_pending",
		"absent"}[s]
}

const c07NumChans = 3 // channels 1..3; 0 is hop.Source

const (
	c07FlavRegular = iota
	c07FlavScidAlias
	c07FlavZeroConf
	c07FlavZeroConfConfirmed
)

type c07RestartSpec struct {
	status [c07NumChans + 1]c07ChanStatus
	flav   [c07NumChans + 1]int
	start  [c07NumChans + 1]uint64
	viaTip [c07NumChans + 1]bool
	resMsg map[CircuitKey]bool

	// decoys that must be ignored by the circuit map
	zeroClosed bool // a closed-channel summary with the all-zero scid
	zeroOpen   bool // an open channel whose scid is still hop.Source

	failAt int // fail the k-th write transaction of NewCircuitMap
}

func (s *c07RestartSpec) String() string {
	str := ""
	for c := 1; c <= c07NumChans; c++ {
		str += fmt.Sprintf("ch%d=%v", c, s.status[c])
		if s.status[c] == c07StOpen {
			str += fmt.Sprintf("@%d", s.start[c])
			if s.viaTip[c] {
				str += "t"
			}
			str += [...]string{"", "/alias", "/zeroconf",
				"/zeroconf-confirmed"}[s.flav[c]]
		}
		str += " "
	}
	str += fmt.Sprintf("res=%d z=%v/%v failAt=%d", len(s.resMsg),
		s.zeroClosed, s.zeroOpen, s.failAt)

	return str
}

type c07RestartStats struct {
	openBefore   int
	purgedCircs  int
	purgedKs     int
	keptByResMsg int
	trimmed      int
}

// purge applies the documented clean-up of fully closed channels:
//   - a circuit whose incoming channel is closed is deleted (with keystone);
//   - a keystone whose outgoing channel is closed is deleted together with
//     its circuit unless a resolution message is still pending for it;
//   - the all-zero channel id never matches; pending closes do not count.
func (m *c07Model) purge(spec *c07RestartSpec, st *c07RestartStats) {
	isClosed := func(id lnwire.ShortChannelID) bool {
		c := id.ToUint64()
		if c == 0 || c > c07NumChans {
			return false
		}

		return spec.status[c] == c07StClosed
	}

	for in, c := range m.circ {
		if !isClosed(in.ChanID) {
			continue
		}
		if c.out != nil {
			delete(m.ks, *c.out)
			st.purgedKs++
		}
		delete(m.circ, in)
		st.purgedCircs++
	}
	for out, in := range m.ks {
		if !isClosed(out.ChanID) {
			continue
		}
		if spec.resMsg[out] {
			st.keptByResMsg++
			continue
		}
		delete(m.ks, out)
		delete(m.circ, in)
		st.purgedKs++
		st.purgedCircs++
	}
}

// restart applies purge, reload (everything loaded-from-disk, closed set
// forgotten) and the per-channel trim to the next unallocated htlc index.
func (m *c07Model) restart(spec *c07RestartSpec) c07RestartStats {
	var st c07RestartStats
	st.openBefore = len(m.ks)

	m.purge(spec, &st)

	for _, c := range m.circ {
		c.loaded = true
		c.ptr = nil
	}
	m.closed = make(map[CircuitKey]bool)

	for c := 1; c <= c07NumChans; c++ {
		if spec.status[c] != c07StOpen {
			continue
		}
		st.trimmed += m.trim(
			lnwire.NewShortChanIDFromInt(uint64(c)), spec.start[c],
		)
	}

	return st
}

// clone makes a deep copy (used to evaluate the purge before fixing the
// generated trim indexes, and by the race check to try permutations).
func (m *c07Model) clone() *c07Model {
	n := c07NewModel()
	for k, c := range m.circ {
		cc := *c
		if c.out != nil {
			o := *c.out
			cc.out = &o
		}
		n.circ[k] = &cc
	}
	for k, v := range m.ks {
		n.ks[k] = v
	}
	for k, v := range m.closed {
		n.closed[k] = v
	}

	return n
}

// c07SameCircuit compares a circuit returned by the map with the model.
func c07SameCircuit(got *PaymentCircuit, want *c07Circ) error {
	switch {
	case want == nil && got == nil:
		return nil
	case want == nil:
		return fmt.Errorf("circuit %v returned, model has none",
			got.Incoming)
	case got == nil:
		return fmt.Errorf("no circuit returned, model has %v", want.in)
	}

	if want.ptr != nil && got != want.ptr {
		return fmt.Errorf("%v: not the circuit object that received "+
			"the Adds verdict", want.in)
	}
	if got.Incoming != want.in {
		return fmt.Errorf("incoming %v want %v", got.Incoming, want.in)
	}
	if got.PaymentHash != want.hash {
		return fmt.Errorf("%v: payment hash %x want %x", want.in,
			got.PaymentHash[:4], want.hash[:4])
	}
	if got.IncomingAmount != want.inAmt || got.OutgoingAmount != want.outAmt {
		return fmt.Errorf("%v: amounts %v/%v want %v/%v", want.in,
			got.IncomingAmount, got.OutgoingAmount, want.inAmt,
			want.outAmt)
	}
	if got.AddRef != want.addRef {
		return fmt.Errorf("%v: addref %v want %v", want.in, got.AddRef,
			want.addRef)
	}
	if got.LoadedFromDisk != want.loaded {
		return fmt.Errorf("%v: LoadedFromDisk=%v want %v", want.in,
			got.LoadedFromDisk, want.loaded)
	}
	if (got.ErrorEncrypter == nil) != want.local {
		return fmt.Errorf("%v: encrypter nil=%v want %v", want.in,
			got.ErrorEncrypter == nil, want.local)
	}
	switch {
	case want.out == nil && got.Outgoing != nil:
		return fmt.Errorf("%v: keystone %v, model has none", want.in,
			*got.Outgoing)
	case want.out != nil && got.Outgoing == nil:
		return fmt.Errorf("%v: no keystone, model has %v", want.in,
			*want.out)
	case want.out != nil && *got.Outgoing != *want.out:
		return fmt.Errorf("%v: keystone %v want %v", want.in,
			*got.Outgoing, *want.out)
	}

	return nil
}
