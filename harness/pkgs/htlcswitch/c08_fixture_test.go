//go:build verif

package htlcswitch

// C08 fixture: the repo's three-hop network (newThreeHopNetwork: real
// channelLinks, real lnwallet channels, real circuit maps, real invoice
// registry) on top of a cluster whose channels are created by c08NewChanPair,
// a copy of createTestChannel with ONE channeldb per node. The repo's
// createClusterChannels opens a separate database for each channel end, so
// Bob's two channels live in different files while his switch uses only the
// first one: settle/fail acks that the incoming link writes for the outgoing
// channel's forwarding package (ackSettleFails) silently go to the wrong file
// and the circuit map trims only one of his channels on start-up. A real node
// has one database; the properties of C08 that concern forwarding packages
// can only be observed with that layout.

import (
	"bytes"
	"crypto/sha256"
	"encoding/binary"
	"errors"
	"fmt"
	"net"
	"runtime"
	"sync"
	"testing"
	"time"

	"github.com/btcsuite/btcd/btcec/v2"
	"github.com/btcsuite/btcd/btcutil/v2"
	"github.com/btcsuite/btcd/chainhash/v2"
	"github.com/btcsuite/btcd/wire/v2"
	sphinx "github.com/lightningnetwork/lightning-onion"
	"github.com/lightningnetwork/lnd/channeldb"
	"github.com/lightningnetwork/lnd/chanstate"
	"github.com/lightningnetwork/lnd/contractcourt"
	"github.com/lightningnetwork/lnd/htlcswitch/hop"
	"github.com/lightningnetwork/lnd/input"
	"github.com/lightningnetwork/lnd/keychain"
	"github.com/lightningnetwork/lnd/lntest/channels"
	"github.com/lightningnetwork/lnd/lnwallet"
	"github.com/lightningnetwork/lnd/lnwallet/chainfee"
	"github.com/lightningnetwork/lnd/lnwire"
	"github.com/lightningnetwork/lnd/shachain"
	"github.com/lightningnetwork/lnd/ticker"
)

// ---------------------------------------------------------------------------
// testing.TB wrapper handed to the fixture: a Fatal raised by one of the mock
// server goroutines (or a require inside newThreeHopNetwork) is recorded and
// ends only the calling goroutine instead of failing the whole test binary.
// The case is then reported as inconclusive by the caller.
// ---------------------------------------------------------------------------

type c08TB struct {
	testing.TB

	mu     sync.Mutex
	fatals []string
}

func (c *c08TB) note(s string) {
	c.mu.Lock()
	c.fatals = append(c.fatals, s)
	c.mu.Unlock()
}

func (c *c08TB) fatalList() []string {
	c.mu.Lock()
	defer c.mu.Unlock()

	return append([]string(nil), c.fatals...)
}

func (c *c08TB) Fatalf(f string, a ...any) {
	c.note(fmt.Sprintf(f, a...))
	runtime.Goexit()
}
func (c *c08TB) Fatal(a ...any)            { c.note(fmt.Sprint(a...)); runtime.Goexit() }
func (c *c08TB) FailNow()                  { c.note("FailNow"); runtime.Goexit() }
func (c *c08TB) Errorf(f string, a ...any) { c.note(fmt.Sprintf(f, a...)) }
func (c *c08TB) Error(a ...any)            { c.note(fmt.Sprint(a...)) }
func (c *c08TB) Fail()                     { c.note("Fail") }
func (c *c08TB) Logf(string, ...any)       {}
func (c *c08TB) Log(...any)                {}

// ---------------------------------------------------------------------------
// Cluster with one database per node.
// ---------------------------------------------------------------------------

type c08ChanEnd struct {
	db     *channeldb.DB
	signer input.Signer
	pool   *lnwallet.SigPool
	aux    *lnwallet.MockAuxSigner
	op     wire.OutPoint
}

func (e *c08ChanEnd) restore() (*lnwallet.LightningChannel, error) {
	chans, err := e.db.ChannelStateDB().FetchAllOpenChannels()
	if err != nil {
		return nil, err
	}
	for _, c := range chans {
		if c.FundingOutpoint == e.op {
			return lnwallet.NewLightningChannel(
				e.signer, c, e.pool,
				lnwallet.WithLeafStore(&lnwallet.MockAuxLeafStore{}),
				lnwallet.WithAuxSigner(e.aux),
			)
		}
	}

	return nil, errors.New("c08: stored channel not found")
}

type c08ChanPair struct {
	a, b     *c08ChanEnd // a = initiator
	chA      *lnwallet.LightningChannel
	chB      *lnwallet.LightningChannel
	capacity btcutil.Amount
	chanID   lnwire.ChannelID
	scid     lnwire.ShortChannelID
}

type c08ClusterCfg struct {
	amtAB, amtBC btcutil.Amount // per side
	dustA, dustB btcutil.Amount // dust limit of the initiator / the other side
	reserve      btcutil.Amount
	fundSeed     [32]byte
	poolWorkers  int
	// max_accepted_htlcs of both ends, per channel
	maxAcceptedAB, maxAcceptedBC uint16
}

type c08Cluster struct {
	dbAlice, dbBob, dbCarol *channeldb.DB
	ab, bc                  *c08ChanPair
	pools                   []*lnwallet.SigPool
}

func (c *c08Cluster) stopPools() {
	for _, p := range c.pools {
		_ = p.Stop()
	}
}

// c08NewChanPair is createTestChannel with the databases passed in, the
// funding outpoint derived from a drawn seed and the signature pools owned by
// the caller.
func c08NewChanPair(t *testing.T, cfg *c08ClusterCfg, dbA, dbB *channeldb.DB,
	privA, privB []byte, amt btcutil.Amount, scid lnwire.ShortChannelID,
	salt byte, maxAccepted uint16) (*c08ChanPair, []*lnwallet.SigPool,
	error) {

	aliceKeyPriv, aliceKeyPub := btcec.PrivKeyFromBytes(privA)
	bobKeyPriv, bobKeyPub := btcec.PrivKeyFromBytes(privB)

	channelCapacity := amt + amt

	mkCfg := func(pub *btcec.PublicKey, dust btcutil.Amount,
		csv uint16) channeldb.ChannelConfig {

		return channeldb.ChannelConfig{
			ChannelStateBounds: channeldb.ChannelStateBounds{
				MaxPendingAmount: lnwire.NewMSatFromSatoshis(
					channelCapacity,
				),
				ChanReserve:      cfg.reserve,
				MinHTLC:          0,
				MaxAcceptedHtlcs: maxAccepted,
			},
			CommitmentParams: channeldb.CommitmentParams{
				DustLimit: dust,
				CsvDelay:  csv,
			},
			MultiSigKey:         keychain.KeyDescriptor{PubKey: pub},
			RevocationBasePoint: keychain.KeyDescriptor{PubKey: pub},
			PaymentBasePoint:    keychain.KeyDescriptor{PubKey: pub},
			DelayBasePoint:      keychain.KeyDescriptor{PubKey: pub},
			HtlcBasePoint:       keychain.KeyDescriptor{PubKey: pub},
		}
	}
	aliceCfg := mkCfg(aliceKeyPub, cfg.dustA, 5)
	bobCfg := mkCfg(bobKeyPub, cfg.dustB, 4)

	seed := cfg.fundSeed
	seed[0] ^= salt
	prevOut := &wire.OutPoint{Hash: chainhash.Hash(sha256.Sum256(seed[:]))}
	fundingTxIn := wire.NewTxIn(prevOut, nil, nil)

	bobRoot, err := chainhash.NewHash(bobKeyPriv.Serialize())
	if err != nil {
		return nil, nil, err
	}
	bobPreimageProducer := shachain.NewRevocationProducer(*bobRoot)
	bobFirstRevoke, err := bobPreimageProducer.AtIndex(0)
	if err != nil {
		return nil, nil, err
	}
	bobCommitPoint := input.ComputeCommitmentPoint(bobFirstRevoke[:])

	aliceRoot, err := chainhash.NewHash(aliceKeyPriv.Serialize())
	if err != nil {
		return nil, nil, err
	}
	alicePreimageProducer := shachain.NewRevocationProducer(*aliceRoot)
	aliceFirstRevoke, err := alicePreimageProducer.AtIndex(0)
	if err != nil {
		return nil, nil, err
	}
	aliceCommitPoint := input.ComputeCommitmentPoint(aliceFirstRevoke[:])

	aliceCommitTx, bobCommitTx, err := lnwallet.CreateCommitmentTxns(
		amt, amt, &aliceCfg, &bobCfg, aliceCommitPoint,
		bobCommitPoint, *fundingTxIn, channeldb.SingleFunderTweaklessBit,
		true, 0,
	)
	if err != nil {
		return nil, nil, err
	}

	estimator := chainfee.NewStaticEstimator(6000, 0)
	feePerKw, err := estimator.EstimateFeePerKW(1)
	if err != nil {
		return nil, nil, err
	}
	commitFee := feePerKw.FeeForWeight(724)

	aliceCommit := channeldb.ChannelCommitment{
		CommitHeight:  0,
		LocalBalance:  lnwire.NewMSatFromSatoshis(amt - commitFee),
		RemoteBalance: lnwire.NewMSatFromSatoshis(amt),
		CommitFee:     commitFee,
		FeePerKw:      btcutil.Amount(feePerKw),
		CommitTx:      aliceCommitTx,
		CommitSig:     bytes.Repeat([]byte{1}, 71),
	}
	bobCommit := channeldb.ChannelCommitment{
		CommitHeight:  0,
		LocalBalance:  lnwire.NewMSatFromSatoshis(amt),
		RemoteBalance: lnwire.NewMSatFromSatoshis(amt - commitFee),
		CommitFee:     commitFee,
		FeePerKw:      btcutil.Amount(feePerKw),
		CommitTx:      bobCommitTx,
		CommitSig:     bytes.Repeat([]byte{1}, 71),
	}

	aliceChannelState := &chanstate.OpenChannel{
		LocalChanCfg:            aliceCfg,
		RemoteChanCfg:           bobCfg,
		IdentityPub:             bobKeyPub,
		FundingOutpoint:         *prevOut,
		ChanType:                channeldb.SingleFunderTweaklessBit,
		IsInitiator:             true,
		Capacity:                channelCapacity,
		RemoteCurrentRevocation: bobCommitPoint,
		RevocationProducer:      alicePreimageProducer,
		RevocationStore:         shachain.NewRevocationStore(),
		LocalCommitment:         aliceCommit,
		RemoteCommitment:        aliceCommit,
		ShortChannelID:          scid,
		Db:                      dbA.ChannelStateDB(),
		FundingTxn:              channels.TestFundingTx,
	}
	bobChannelState := &chanstate.OpenChannel{
		LocalChanCfg:            bobCfg,
		RemoteChanCfg:           aliceCfg,
		IdentityPub:             aliceKeyPub,
		FundingOutpoint:         *prevOut,
		ChanType:                channeldb.SingleFunderTweaklessBit,
		IsInitiator:             false,
		Capacity:                channelCapacity,
		RemoteCurrentRevocation: aliceCommitPoint,
		RevocationProducer:      bobPreimageProducer,
		RevocationStore:         shachain.NewRevocationStore(),
		LocalCommitment:         bobCommit,
		RemoteCommitment:        bobCommit,
		ShortChannelID:          scid,
		Db:                      dbB.ChannelStateDB(),
	}

	bobAddr := &net.TCPAddr{IP: net.ParseIP("127.0.0.1"), Port: 18555}
	aliceAddr := &net.TCPAddr{IP: net.ParseIP("127.0.0.1"), Port: 18556}
	if err := aliceChannelState.SyncPending(bobAddr, 1); err != nil {
		return nil, nil, err
	}
	if err := bobChannelState.SyncPending(aliceAddr, 1); err != nil {
		return nil, nil, err
	}

	aliceSigner := input.NewMockSigner(
		[]*btcec.PrivateKey{aliceKeyPriv}, nil,
	)
	bobSigner := input.NewMockSigner(
		[]*btcec.PrivateKey{bobKeyPriv}, nil,
	)
	signerMock := lnwallet.NewDefaultAuxSignerMock(t)

	alicePool := lnwallet.NewSigPool(cfg.poolWorkers, aliceSigner)
	channelAlice, err := lnwallet.NewLightningChannel(
		aliceSigner, aliceChannelState, alicePool,
		lnwallet.WithLeafStore(&lnwallet.MockAuxLeafStore{}),
		lnwallet.WithAuxSigner(signerMock),
	)
	if err != nil {
		return nil, nil, err
	}
	if err := alicePool.Start(); err != nil {
		return nil, nil, err
	}

	bobPool := lnwallet.NewSigPool(cfg.poolWorkers, bobSigner)
	channelBob, err := lnwallet.NewLightningChannel(
		bobSigner, bobChannelState, bobPool,
		lnwallet.WithLeafStore(&lnwallet.MockAuxLeafStore{}),
		lnwallet.WithAuxSigner(signerMock),
	)
	if err != nil {
		return nil, nil, err
	}
	if err := bobPool.Start(); err != nil {
		return nil, nil, err
	}
	pools := []*lnwallet.SigPool{alicePool, bobPool}

	aliceNextRevoke, err := channelAlice.NextRevocationKey()
	if err != nil {
		return nil, pools, err
	}
	if err := channelBob.InitNextRevocation(aliceNextRevoke); err != nil {
		return nil, pools, err
	}
	bobNextRevoke, err := channelBob.NextRevocationKey()
	if err != nil {
		return nil, pools, err
	}
	if err := channelAlice.InitNextRevocation(bobNextRevoke); err != nil {
		return nil, pools, err
	}

	return &c08ChanPair{
		a: &c08ChanEnd{
			db: dbA, signer: aliceSigner, pool: alicePool,
			aux: signerMock, op: *prevOut,
		},
		b: &c08ChanEnd{
			db: dbB, signer: bobSigner, pool: bobPool,
			aux: signerMock, op: *prevOut,
		},
		chA:      channelAlice,
		chB:      channelBob,
		capacity: channelCapacity,
		chanID:   lnwire.NewChanIDFromOutPoint(*prevOut),
		scid:     scid,
	}, pools, nil
}

// c08NewCluster creates Alice<->Bob (Alice initiator) and Bob<->Carol (Bob
// initiator), like createClusterChannels, with one database per node.
func c08NewCluster(t *testing.T, cfg *c08ClusterCfg) (*c08Cluster, error) {
	cl := &c08Cluster{
		dbAlice: channeldb.OpenForTesting(t, t.TempDir()),
		dbBob:   channeldb.OpenForTesting(t, t.TempDir()),
		dbCarol: channeldb.OpenForTesting(t, t.TempDir()),
	}
	_, _, scid1, scid2 := genIDs()

	ab, pools, err := c08NewChanPair(
		t, cfg, cl.dbAlice, cl.dbBob, alicePrivKey, bobPrivKey,
		cfg.amtAB, scid1, 1, cfg.maxAcceptedAB,
	)
	cl.pools = append(cl.pools, pools...)
	if err != nil {
		return cl, fmt.Errorf("alice<->bob: %w", err)
	}
	bc, pools, err := c08NewChanPair(
		t, cfg, cl.dbBob, cl.dbCarol, bobPrivKey, carolPrivKey,
		cfg.amtBC, scid2, 2, cfg.maxAcceptedBC,
	)
	cl.pools = append(cl.pools, pools...)
	if err != nil {
		return cl, fmt.Errorf("bob<->carol: %w", err)
	}
	cl.ab, cl.bc = ab, bc

	return cl, nil
}

// restoreAll re-reads the four channel ends from the databases.
func (c *c08Cluster) restoreAll() (a2b, b2a, b2c, c2b *lnwallet.LightningChannel,
	err error) {

	if a2b, err = c.ab.a.restore(); err != nil {
		return
	}
	if b2a, err = c.ab.b.restore(); err != nil {
		return
	}
	if b2c, err = c.bc.a.restore(); err != nil {
		return
	}
	c2b, err = c.bc.b.restore()

	return
}

// ---------------------------------------------------------------------------
// Message tap / fault injector installed through mockServer.intersect.
// ---------------------------------------------------------------------------

type c08Edge uint8

const (
	c08AtoB c08Edge = iota // received by Bob on channel AB
	c08BtoA                // received by Alice
	c08BtoC                // received by Carol
	c08CtoB                // received by Bob on channel BC
	c08NumEdges
)

var c08EdgeNames = [...]string{"A>B", "B>A", "B>C", "C>B"}

func (e c08Edge) reverse() c08Edge {
	switch e {
	case c08AtoB:
		return c08BtoA
	case c08BtoA:
		return c08AtoB
	case c08BtoC:
		return c08CtoB
	default:
		return c08BtoC
	}
}

type c08Kind uint8

const (
	c08Add c08Kind = iota
	c08Commit
	c08Revoke
	c08Fulfill
	c08Fail
	c08NumFaultKinds // kinds below cannot trigger a cut
	c08Reest         = c08NumFaultKinds
	c08Other         = c08NumFaultKinds + 1
	c08PeerErr       = c08NumFaultKinds + 2
	c08Epoch         = c08NumFaultKinds + 3 // marker: new connection epoch
	c08NumKinds      = c08NumFaultKinds + 4
)

var c08KindNames = [...]string{
	"add", "commit_sig", "revoke", "fulfill", "fail", "reestablish",
	"other", "error", "new_epoch",
}

type c08Event struct {
	seq     int
	phase   int
	epoch   int // connection epoch of the edge (restart or link flap)
	edge    c08Edge
	kind    c08Kind
	id      uint64
	hash    [32]byte
	pre     [32]byte
	dropped bool
}

// c08CutPlan: the ord-th message of kind on edge (counted per phase) and
// everything after it on that edge (and on the reverse edge if both) is lost
// until the next restart: a dying connection, not a reordering network.
type c08CutPlan struct {
	Phase int
	Edge  c08Edge
	Kind  c08Kind
	Ord   int
	Both  bool

	fired bool
}

type c08Tap struct {
	mu sync.Mutex

	abID, bcID lnwire.ChannelID

	log        []c08Event
	phase      int
	epoch      [c08NumEdges]int
	phaseCount int
	kindCount  [c08NumEdges][c08NumKinds]int
	cut        [c08NumEdges]bool
	plans      []*c08CutPlan
	lastEvent  time.Time
	peerErrs   int

	// log index of the first add seen per payment hash (overlap
	// measurement).
	firstAdd map[[32]byte]int

	// link flap support: messages on a held edge wait in the receiving
	// server's goroutine; a Ping is the harness' queue sentinel.
	hold     [c08NumEdges]chan struct{}
	sentinel chan string
}

func c08NewTap(abID, bcID lnwire.ChannelID, plans []*c08CutPlan) *c08Tap {
	t := &c08Tap{
		abID: abID, bcID: bcID, plans: plans,
		firstAdd:  make(map[[32]byte]int),
		lastEvent: time.Now(),
		sentinel:  make(chan string, 16),
	}

	return t
}

// newPhase is called while the network is down.
func (t *c08Tap) newPhase(p int) {
	t.mu.Lock()
	defer t.mu.Unlock()

	t.phase = p
	for i := range t.epoch {
		t.epoch[i]++
		t.log = append(t.log, c08Event{
			seq: len(t.log), phase: p, epoch: t.epoch[i],
			edge: c08Edge(i), kind: c08Epoch,
		})
	}
	t.phaseCount = 0
	t.kindCount = [c08NumEdges][c08NumKinds]int{}
	t.cut = [c08NumEdges]bool{}
	t.lastEvent = time.Now()
}

// disconnect drops everything on both edges of a channel from now on.
func (t *c08Tap) disconnect(e c08Edge) {
	t.mu.Lock()
	defer t.mu.Unlock()

	t.cut[e], t.cut[e.reverse()] = true, true
}

// release lets the messages held on both edges of a channel through.
func (t *c08Tap) release(e c08Edge) {
	t.mu.Lock()
	defer t.mu.Unlock()

	for _, x := range []c08Edge{e, e.reverse()} {
		if t.hold[x] != nil {
			close(t.hold[x])
			t.hold[x] = nil
		}
	}
}

// reconnect is called while both links of a channel are down (link flap)
// and the servers' queues are drained: the cut heals, a new connection epoch
// starts on both edges, and what the new links send is held until release.
func (t *c08Tap) reconnect(e c08Edge) {
	t.mu.Lock()
	defer t.mu.Unlock()

	for _, x := range []c08Edge{e, e.reverse()} {
		t.cut[x] = false
		t.hold[x] = make(chan struct{})
		t.epoch[x]++
		t.log = append(t.log, c08Event{
			seq: len(t.log), phase: t.phase, epoch: t.epoch[x],
			edge: x, kind: c08Epoch,
		})
	}
	t.lastEvent = time.Now()
}

// cutChannel returns the channel (0: AB, 1: BC) with a dead edge, or -1.
func (t *c08Tap) cutChannel() int {
	t.mu.Lock()
	defer t.mu.Unlock()

	for e, c := range t.cut {
		if c {
			return e / 2
		}
	}

	return -1
}

func (t *c08Tap) epochs() [c08NumEdges]int {
	t.mu.Lock()
	defer t.mu.Unlock()

	return t.epoch
}

// touch restarts the idle clock (after the harness injected work).
func (t *c08Tap) touch() {
	t.mu.Lock()
	t.lastEvent = time.Now()
	t.mu.Unlock()
}

func (t *c08Tap) snapshot() (count int, since time.Duration) {
	t.mu.Lock()
	defer t.mu.Unlock()

	return t.phaseCount, time.Since(t.lastEvent)
}

func (t *c08Tap) events() []c08Event {
	t.mu.Lock()
	defer t.mu.Unlock()

	return append([]c08Event(nil), t.log...)
}

// interceptor returns the hook for the server with the given name.
func (t *c08Tap) interceptor(server string) messageInterceptor {
	return func(m lnwire.Message) (bool, error) {
		ev := c08Event{kind: c08Other}
		var cid lnwire.ChannelID
		switch msg := m.(type) {
		case *lnwire.UpdateAddHTLC:
			cid, ev.kind, ev.id = msg.ChanID, c08Add, msg.ID
			ev.hash = msg.PaymentHash
		case *lnwire.UpdateFulfillHTLC:
			cid, ev.kind, ev.id = msg.ChanID, c08Fulfill, msg.ID
			ev.pre = msg.PaymentPreimage
		case *lnwire.UpdateFailHTLC:
			cid, ev.kind, ev.id = msg.ChanID, c08Fail, msg.ID
		case *lnwire.UpdateFailMalformedHTLC:
			cid, ev.kind, ev.id = msg.ChanID, c08Fail, msg.ID
		case *lnwire.CommitSig:
			cid, ev.kind = msg.ChanID, c08Commit
		case *lnwire.RevokeAndAck:
			cid, ev.kind = msg.ChanID, c08Revoke
		case *lnwire.ChannelReestablish:
			cid, ev.kind = msg.ChanID, c08Reest
		case *lnwire.ChannelReady:
			cid = msg.ChanID
		case *lnwire.UpdateFee:
			cid = msg.ChanID
		case *lnwire.Error:
			cid, ev.kind = msg.ChanID, c08PeerErr
		case *lnwire.Warning:
			cid, ev.kind = msg.ChanID, c08PeerErr
		case *lnwire.Ping:
			// harness sentinel: everything queued before it has
			// been taken off this server's queue.
			select {
			case t.sentinel <- server:
			default:
			}

			return true, nil
		default:
			// Not a message the mock server can route; swallow it
			// (readHandler would abort the server goroutine).
			t.mu.Lock()
			t.peerErrs++
			t.mu.Unlock()

			return true, nil
		}

		switch {
		case server == "alice":
			ev.edge = c08BtoA
		case server == "carol":
			ev.edge = c08BtoC
		case cid == t.abID:
			ev.edge = c08AtoB
		default:
			ev.edge = c08CtoB
		}

		t.mu.Lock()
		h := t.hold[ev.edge]
		t.mu.Unlock()
		if h != nil {
			<-h
		}

		t.mu.Lock()
		defer t.mu.Unlock()

		ev.phase = t.phase
		ev.epoch = t.epoch[ev.edge]
		ev.seq = len(t.log)
		if ev.kind < c08NumFaultKinds {
			// only HTLC traffic counts for the harness' triggers
			t.phaseCount++
		}
		t.lastEvent = time.Now()
		t.kindCount[ev.edge][ev.kind]++

		if ev.kind < c08NumFaultKinds {
			for _, p := range t.plans {
				if p.fired || p.Phase != t.phase ||
					p.Edge != ev.edge || p.Kind != ev.kind ||
					p.Ord != t.kindCount[ev.edge][ev.kind] {

					continue
				}
				p.fired = true
				t.cut[ev.edge] = true
				if p.Both {
					t.cut[ev.edge.reverse()] = true
				}
			}
		}
		ev.dropped = t.cut[ev.edge]
		if ev.kind == c08PeerErr {
			// lnwire.Error/Warning cannot be routed by the mock
			// server; a link only sends them when it fails.
			t.peerErrs++
			ev.dropped = true
		}

		if ev.kind == c08Add {
			if _, ok := t.firstAdd[ev.hash]; !ok {
				t.firstAdd[ev.hash] = ev.seq
			}
		}

		t.log = append(t.log, ev)

		return ev.dropped, nil
	}
}

// ---------------------------------------------------------------------------
// Route construction (generateHops with the option to under/over-pay the
// forwarding fee and to shave the time lock).
// ---------------------------------------------------------------------------

// c08Hops builds the two payloads for a payment over firstLink (the
// forwarder's incoming link) and lastLink (the receiver's link). amt is what
// the receiver gets, feeDelta is added to the exact forwarding fee.
func c08Hops(amt lnwire.MilliSatoshi, feeDelta int64, cltvDefect uint32,
	height uint32, firstLink, lastLink *channelLink) (lnwire.MilliSatoshi,
	uint32, []*hop.Payload) {

	delta := lastLink.cfg.FwrdingPolicy.TimeLockDelta
	finalCltv := height + testInvoiceCltvExpiry
	total := finalCltv + delta - cltvDefect

	// A negative total (incoming below outgoing) is allowed: the forwarder
	// must refuse it.
	fee := int64(ExpectedFee(firstLink.cfg.FwrdingPolicy, amt)) + feeDelta
	in := int64(amt) + fee
	if in < 1 {
		in = 1
	}
	inAmt := lnwire.MilliSatoshi(in)

	mk := func(next lnwire.ShortChannelID, fwd lnwire.MilliSatoshi,
		cltv uint32) *hop.Payload {

		var nextHopBytes [8]byte
		binary.BigEndian.PutUint64(nextHopBytes[:], next.ToUint64())

		return hop.NewLegacyPayload(&sphinx.HopData{
			Realm:         [1]byte{},
			NextAddress:   nextHopBytes,
			ForwardAmount: uint64(fwd),
			OutgoingCltv:  cltv,
		})
	}

	return inAmt, total, []*hop.Payload{
		mk(lastLink.channel.ShortChanID(), amt, finalCltv),
		mk(hop.Exit, amt, finalCltv),
	}
}

// ---------------------------------------------------------------------------
// Link creation for a single-channel reconnect while the switches keep
// running: hopNetwork.createChannelLink with the hooks set BEFORE the link is
// started (AddLink starts it) and a fresh error encrypter per call.
// ---------------------------------------------------------------------------

type c08LinkHooks struct {
	onFailure func(LinkFailureError)
	onActive  func()
}

func c08CreateLink(h *hopNetwork, server, peer *mockServer,
	channel *lnwallet.LightningChannel, decoder *mockIteratorDecoder,
	hooks c08LinkHooks) (*channelLink, error) {

	const (
		fwdPkgTimeout       = 15 * time.Second
		minFeeUpdateTimeout = 30 * time.Minute
		maxFeeUpdateTimeout = 40 * time.Minute
	)

	notifyUpdateChan := make(chan *contractcourt.ContractUpdate)
	doneChan := make(chan struct{})
	notifyContractUpdate := func(u *contractcourt.ContractUpdate) error {
		select {
		case notifyUpdateChan <- u:
		case <-doneChan:
		}

		return nil
	}
	forwardPackets := func(linkQuit <-chan struct{}, _ bool,
		packets ...*htlcPacket) error {

		return server.htlcSwitch.ForwardPackets(linkQuit, packets...)
	}

	//nolint:ll
	link := NewChannelLink(
		ChannelLinkConfig{
			BestHeight:         server.htlcSwitch.BestHeight,
			FwrdingPolicy:      h.globalPolicy,
			Peer:               peer,
			Circuits:           server.htlcSwitch.CircuitModifier(),
			ForwardPackets:     forwardPackets,
			DecodeHopIterators: decoder.DecodeHopIterators,
			ExtractErrorEncrypter: func(*btcec.PublicKey) (
				hop.ErrorEncrypter, lnwire.FailCode) {

				return NewMockObfuscator(), lnwire.CodeNone
			},
			FetchLastChannelUpdate: mockGetChanUpdateMessage,
			Registry:               server.registry,
			FeeEstimator:           h.feeEstimator,
			PreimageCache:          server.pCache,
			UpdateContractSignals: func(*contractcourt.ContractSignals) error {
				return nil
			},
			NotifyContractUpdate: notifyContractUpdate,
			ChainEvents:          &contractcourt.ChainEventSubscription{},
			SyncStates:           true,
			BatchSize:            10,
			BatchTicker:          ticker.NewForce(testBatchTimeout),
			FwdPkgGCTicker:       ticker.NewForce(fwdPkgTimeout),
			PendingCommitTicker:  ticker.New(2 * time.Minute),
			MinUpdateTimeout:     minFeeUpdateTimeout,
			MaxUpdateTimeout:     maxFeeUpdateTimeout,
			OnChannelFailure: func(_ lnwire.ChannelID,
				_ lnwire.ShortChannelID, e LinkFailureError) {

				hooks.onFailure(e)
			},
			OutgoingCltvRejectDelta: 3,
			MaxOutgoingCltvExpiry:   DefaultMaxOutgoingCltvExpiry,
			MaxFeeAllocation:        DefaultMaxLinkFeeAllocation,
			MaxAnchorsCommitFeeRate: chainfee.SatPerKVByte(10 * 1000).FeePerKWeight(),
			NotifyActiveLink:        func(wire.OutPoint) {},
			NotifyActiveChannel:     func(wire.OutPoint) { hooks.onActive() },
			NotifyInactiveChannel:   func(wire.OutPoint) {},
			NotifyInactiveLinkEvent: func(wire.OutPoint) {},
			NotifyChannelUpdate:     func(*chanstate.OpenChannel) {},
			HtlcNotifier:            server.htlcSwitch.cfg.HtlcNotifier,
			GetAliases: func(lnwire.ShortChannelID) []lnwire.ShortChannelID {
				return nil
			},
			ShouldFwdExpAccountability: func() bool { return true },
		},
		channel,
	)
	if err := server.htlcSwitch.AddLink(link); err != nil {
		return nil, fmt.Errorf("unable to add channel link: %w", err)
	}
	chanLink := link.(*channelLink)

	go func() {
		for {
			select {
			case <-notifyUpdateChan:
			case <-chanLink.cg.Done():
				close(doneChan)
				return
			}
		}
	}()

	return chanLink, nil
}

// c08Notifier counts, at the forwarder, the ADDs that the OUTGOING link gave
// up on after the switch had accepted the forward (mailbox FailAdd: no HTLC
// slot, balance taken by a concurrent HTLC, ...).
type c08Notifier struct {
	mockHTLCNotifier

	mu       sync.Mutex
	failAdds int
	phase    int // harness phase, set while the network is down
	lastAt   int // phase of the latest refusal
}

func (n *c08Notifier) setPhase(p int) {
	n.mu.Lock()
	n.phase = p
	n.mu.Unlock()
}

func (n *c08Notifier) last() int {
	n.mu.Lock()
	defer n.mu.Unlock()

	return n.lastAt
}

func (n *c08Notifier) NotifyLinkFailEvent(key HtlcKey, _ HtlcInfo,
	_ HtlcEventType, linkErr *LinkError, _ bool) {

	if linkErr == nil || key.IncomingCircuit.ChanID == hop.Source ||
		linkErr.FailureDetail != OutgoingFailureDownstreamHtlcAdd {

		return
	}
	n.mu.Lock()
	n.failAdds++
	n.lastAt = n.phase
	n.mu.Unlock()
}

func (n *c08Notifier) count() int {
	n.mu.Lock()
	defer n.mu.Unlock()

	return n.failAdds
}
