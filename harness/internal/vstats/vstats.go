// Package vstats collects per-case evidence (fingerprints, labels, samples)
// inside harness test binaries and flushes an aggregate to $VERIF_STATS.
//
// It lives only in the build overlay (mapped to
// /repo/internal/verif/vstats) and is never part of lnd itself.
package vstats

import (
	"encoding/binary"
	"encoding/json"
	"fmt"
	"hash/fnv"
	"os"
	"sort"
	"sync"
)

// Collector aggregates the cases of one test function.
type Collector struct {
	mu sync.Mutex

	name        string
	evaluations int64
	nontrivial  int64
	fps         map[uint64]struct{}
	labels      map[string]int64
	counters    map[string]int64
	samples     []any
	maxSamples  int
	known       map[string]int64
}

var (
	allMu sync.Mutex
	all   []*Collector
)

// New creates a collector for a test. Flush must be deferred by the caller.
func New(name string) *Collector {
	c := &Collector{
		name:       name,
		fps:        make(map[uint64]struct{}),
		labels:     make(map[string]int64),
		counters:   make(map[string]int64),
		known:      make(map[string]int64),
		maxSamples: 8,
	}
	allMu.Lock()
	all = append(all, c)
	allMu.Unlock()

	return c
}

// FP returns a 64-bit fingerprint of the given parts.
func FP(parts ...any) uint64 {
	h := fnv.New64a()
	for _, p := range parts {
		switch v := p.(type) {
		case []byte:
			_, _ = h.Write(v)
		case string:
			_, _ = h.Write([]byte(v))
		default:
			_, _ = fmt.Fprintf(h, "%v", v)
		}
		_, _ = h.Write([]byte{0})
	}

	return h.Sum64()
}

// Case records one generated case. fp identifies the generated value;
// nontrivial is the property's stated rule evaluated on this case; sample
// (may be nil) is a printable rendering that is kept for the first few
// non-trivial cases.
func (c *Collector) Case(fp uint64, nontrivial bool, labels []string,
	sample any) {

	c.mu.Lock()
	defer c.mu.Unlock()

	c.evaluations++
	for _, l := range labels {
		c.labels[l]++
	}
	if !nontrivial {
		return
	}
	c.nontrivial++
	if _, ok := c.fps[fp]; ok {
		return
	}
	c.fps[fp] = struct{}{}
	if sample != nil && len(c.samples) < c.maxSamples {
		c.samples = append(c.samples, sample)
	}
}

// WantSample reports whether another sample would still be kept; harnesses
// use it to avoid rendering expensive samples.
func (c *Collector) WantSample() bool {
	c.mu.Lock()
	defer c.mu.Unlock()

	return len(c.samples) < c.maxSamples
}

// Count adds n to a named counter (e.g. "excluded_known", "outside_domain").
func (c *Collector) Count(name string, n int64) {
	c.mu.Lock()
	c.counters[name] += n
	c.mu.Unlock()
}

// Known records that a known-finding key was hit.
func (c *Collector) Known(key string) {
	c.mu.Lock()
	c.known[key]++
	c.mu.Unlock()
}

type flushed struct {
	Test        string           `json:"test"`
	Evaluations int64            `json:"evaluations"`
	Nontrivial  int64            `json:"nontrivial"`
	Distinct    int64            `json:"distinct_nontrivial"`
	Labels      map[string]int64 `json:"labels"`
	Counters    map[string]int64 `json:"counters"`
	Known       map[string]int64 `json:"known"`
	Samples     []any            `json:"samples"`
	FPFile      string           `json:"fp_file"`
}

// Flush appends the aggregate as one JSON line to $VERIF_STATS and the
// fingerprints to $VERIF_STATS.<test>.fp (8 bytes LE each).
func (c *Collector) Flush() {
	c.mu.Lock()
	defer c.mu.Unlock()

	path := os.Getenv("VERIF_STATS")
	if path == "" {
		return
	}

	fpFile := fmt.Sprintf("%s.%s.fp", path, c.name)
	keys := make([]uint64, 0, len(c.fps))
	for k := range c.fps {
		keys = append(keys, k)
	}
	sort.Slice(keys, func(i, j int) bool { return keys[i] < keys[j] })
	buf := make([]byte, 8*len(keys))
	for i, k := range keys {
		binary.LittleEndian.PutUint64(buf[8*i:], k)
	}
	_ = os.WriteFile(fpFile, buf, 0o644)

	out := flushed{
		Test:        c.name,
		Evaluations: c.evaluations,
		Nontrivial:  c.nontrivial,
		Distinct:    int64(len(c.fps)),
		Labels:      c.labels,
		Counters:    c.counters,
		Known:       c.known,
		Samples:     c.samples,
		FPFile:      fpFile,
	}
	b, err := json.Marshal(out)
	if err != nil {
		// A sample that cannot be marshalled must not lose the counts.
		out.Samples = []any{fmt.Sprintf("unmarshallable: %v", err)}
		b, _ = json.Marshal(out)
	}
	f, err := os.OpenFile(path, os.O_APPEND|os.O_CREATE|os.O_WRONLY, 0o644)
	if err != nil {
		return
	}
	_, _ = f.Write(append(b, '\n'))
	_ = f.Close()
}

// KnownFinding is one entry of /verif/known_findings.json.
type KnownFinding struct {
	Property string `json:"property"`
	Key      string `json:"key"`
	Status   string `json:"status"`
	Commit   string `json:"commit,omitempty"`
	What     string `json:"what"`
}

var (
	knownOnce sync.Once
	knownSet  map[string]bool
)

// IsKnown reports whether key is listed with status "known" in the file
// named by $VERIF_KNOWN. Entries with status "fixed" suppress nothing.
func IsKnown(key string) bool {
	knownOnce.Do(func() {
		knownSet = make(map[string]bool)
		p := os.Getenv("VERIF_KNOWN")
		if p == "" {
			return
		}
		b, err := os.ReadFile(p)
		if err != nil {
			return
		}
		var doc struct {
			Findings []KnownFinding `json:"findings"`
		}
		if json.Unmarshal(b, &doc) != nil {
			return
		}
		for _, f := range doc.Findings {
			if f.Status == "known" {
				knownSet[f.Key] = true
			}
		}
	})

	return knownSet[key]
}

// EnvInt reads an integer knob from the environment (driver-provided scale
// parameters such as VERIF_N); def is returned when unset or malformed.
func EnvInt(name string, def int) int {
	s := os.Getenv(name)
	if s == "" {
		return def
	}
	var v int
	if _, err := fmt.Sscanf(s, "%d", &v); err != nil {
		return def
	}

	return v
}
