//go:build verif && kvdb_sqlite

package chansim

import (
	"github.com/btcsuite/btcwallet/walletdb"
	"github.com/lightningnetwork/lnd/kvdb"
)

// Backend names the key-value backend the channel databases run on: with the
// kvdb_sqlite build tag every channel database of the simulator is lnd's
// SQL-backed kvdb (sqlbase over sqlite), whose transactions, cursors and
// sequences are implemented separately from bbolt's.
const Backend = "sqlite"

func openBackend(dir string) (walletdb.DB, error) {
	return kvdb.StartSqliteTestBackend(dir, "channel.sqlite", "channeldb")
}
