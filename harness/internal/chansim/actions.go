//go:build verif

package chansim

import (
	"bytes"
	"errors"
	"github.com/lightningnetwork/lnd/fn/v2"

	"crypto/sha256"
	"fmt"
	"github.com/btcsuite/btcd/btcec/v2"
	"github.com/lightningnetwork/lnd/tlv"

	"github.com/btcsuite/btcd/wire/v2"
	"github.com/lightningnetwork/lnd/channeldb"
	"github.com/lightningnetwork/lnd/input"
	"github.com/lightningnetwork/lnd/lnwallet"
	"github.com/lightningnetwork/lnd/lnwallet/chainfee"
	"github.com/lightningnetwork/lnd/lnwire"
)

// ---------------------------------------------------------------------------
// Model predicates (never consult lnd).

// Unacked reports whether x has a signature outstanding.
func (s *Sim) Unacked(x int) bool {
	return uint64(len(s.M.Sigs[x])) > s.M.RevsDelivered[1-x]
}

// Owes reports whether x has updates to sign for.
func (s *Sim) Owes(x int) bool {
	m := &s.M
	return len(m.U[x]) > m.SignedOwn[x] || m.TailTheir[x] > m.SignedTheir[x]
}

// CanSign: x owes a commitment and the revocation window is open.
func (s *Sim) CanSign(x int) bool {
	return s.Aborted == "" && s.Owes(x) && !s.Unacked(x)
}

// CanDeliver: a message from x is in flight.
func (s *Sim) CanDeliver(x int) bool {
	return s.Aborted == "" && len(s.Q[x]) > 0
}

// NextHtlcID is the id the model expects x's next add to get.
func (s *Sim) NextHtlcID(x int) uint64 {
	var n uint64
	for _, u := range s.M.U[x] {
		if u.Kind == UAdd {
			n++
		}
	}
	return n
}

// Resolvable returns the HTLCs offered by the peer of y that are
// irrevocably committed and not (currently) resolved by y.
func (s *Sim) Resolvable(y int) []*HTLC {
	x := 1 - y
	resolved := map[*HTLC]bool{}
	for _, u := range s.M.U[y] {
		if u.Kind == USettle || u.Kind == UFail || u.Kind == UMalformed {
			resolved[u.H] = true
		}
	}
	var out []*HTLC
	for i, u := range s.M.U[x] {
		if i >= s.M.Locked[x] {
			break
		}
		if u.Kind == UAdd && !resolved[u.H] {
			out = append(out, u.H)
		}
	}
	return out
}

// LiveOffered returns x's offered HTLCs (signed or not) that no update of
// the peer resolves yet.
func (s *Sim) LiveOffered(x int) []*HTLC {
	resolved := map[*HTLC]bool{}
	for _, u := range s.M.U[1-x] {
		if u.Kind != UAdd && u.Kind != UFee {
			resolved[u.H] = true
		}
	}
	var out []*HTLC
	for _, u := range s.M.U[x] {
		if u.Kind == UAdd && !resolved[u.H] {
			out = append(out, u.H)
		}
	}
	return out
}

// ---------------------------------------------------------------------------
// Sending actions.

func (s *Sim) send(x int, u Update) {
	s.M.U[x] = append(s.M.U[x], u)
	s.Q[x] = append(s.Q[x], u.Msg)
}

// DoAdd lets x offer an HTLC. Returns false if lnd refused it with a
// constraint error (an outcome, not a failure).
func (s *Sim) DoAdd(x int, amt lnwire.MilliSatoshi, expiry uint32,
	dupOf *HTLC) (bool, error) {

	return s.DoAddExp(x, amt, expiry, dupOf, 0)
}

// DoAddExp is DoAdd where a duplicate may get a different expiry (same hash
// and amount: identical scripts for offered HTLCs, the BOLT-3 CLTV
// tie-break decides the output order).
func (s *Sim) DoAddExp(x int, amt lnwire.MilliSatoshi, expiry uint32,
	dupOf *HTLC, dupExpiry uint32) (bool, error) {

	s.seq++
	h := &HTLC{From: x, Amt: amt, Expiry: expiry, Seq: s.seq}
	if dupOf != nil {
		h.Amt, h.Expiry = dupOf.Amt, dupOf.Expiry
		if dupExpiry != 0 {
			h.Expiry = dupExpiry
		}
		h.Preimage, h.Hash = dupOf.Preimage, dupOf.Hash
	} else {
		h.Preimage, h.Hash = preimageFor(s.P, s.seq)
	}
	msg := &lnwire.UpdateAddHTLC{
		ChanID:      s.ChanID,
		Amount:      h.Amt,
		PaymentHash: h.Hash,
		Expiry:      h.Expiry,
	}
	copy(msg.OnionBlob[:], bytes.Repeat([]byte{byte(s.seq)}, 32))
	// A quarter of the adds carry a route-blinding point, a quarter custom
	// records (never the no-op type 65544): both must survive signing,
	// persistence, reloads and retransmission unchanged.
	extra := s.P.hashN("htlc-extra", s.seq)
	if extra[0]%4 == 0 {
		k, _ := btcec.PrivKeyFromBytes(extra[:])
		msg.BlindingPoint = tlv.SomeRecordT(
			tlv.NewPrimitiveRecord[lnwire.BlindingPointTlvType](k.PubKey()),
		)
		s.label("htlc_with_blinding_point")
	}
	if extra[1]%4 == 0 {
		msg.CustomRecords = lnwire.CustomRecords{
			uint64(lnwire.MinCustomRecordsTlvType) + 100 + uint64(extra[2]): extra[3:11],
		}
		s.label("htlc_with_custom_records")
	}
	want := s.NextHtlcID(x)
	id, err := s.Sides[x].Chan.AddHTLC(msg, nil)
	if err != nil {
		if IsConstraintErr(err) {
			s.tracef("%s add %d msat: refused (%v)", sideName(x), h.Amt, err)
			s.label("add_refused")
			if errors.Is(err, lnwallet.ErrMaxHTLCNumber) {
				s.label("max_htlc_hit")
			}
			return false, nil
		}
		return false, violationf("%s AddHTLC(%d msat): unexpected "+
			"error %v", sideName(x), h.Amt, err)
	}
	if id != want {
		return false, violationf("%s AddHTLC returned id %d, model "+
			"expects %d", sideName(x), id, want)
	}
	h.ID = id
	msg.ID = id
	h.Msg = msg
	s.send(x, Update{Kind: UAdd, H: h, Msg: msg})
	s.tracef("%s add id=%d amt=%d exp=%d dup=%v", sideName(x), id, h.Amt,
		h.Expiry, dupOf != nil)
	return true, nil
}

// DoResolve lets y settle/fail an irrevocably committed incoming HTLC.
func (s *Sim) DoResolve(y int, h *HTLC, kind UpdKind) error {
	ch := s.Sides[y].Chan
	var (
		msg lnwire.Message
		err error
	)
	switch kind {
	case USettle:
		err = ch.SettleHTLC(h.Preimage, h.ID, nil, nil, nil)
		msg = &lnwire.UpdateFulfillHTLC{
			ChanID: s.ChanID, ID: h.ID, PaymentPreimage: h.Preimage,
		}
	case UFail:
		reason := []byte{0xde, 0xad, byte(h.ID)}
		err = ch.FailHTLC(h.ID, reason, nil, nil, nil)
		msg = &lnwire.UpdateFailHTLC{
			ChanID: s.ChanID, ID: h.ID, Reason: reason,
		}
	case UMalformed:
		sha := sha256.Sum256([]byte{byte(h.ID)})
		code := lnwire.CodeInvalidOnionHmac
		err = ch.MalformedFailHTLC(h.ID, code, sha, nil)
		msg = &lnwire.UpdateFailMalformedHTLC{
			ChanID: s.ChanID, ID: h.ID, ShaOnionBlob: sha,
			FailureCode: code,
		}
	default:
		return fmt.Errorf("bad resolve kind")
	}
	if err != nil {
		return violationf("%s %v of locked-in HTLC id=%d refused: %v",
			sideName(y), kind, h.ID, err)
	}
	s.send(y, Update{Kind: kind, H: h, Msg: msg})
	s.label("resolved_" + kind.String())
	s.tracef("%s %v id=%d", sideName(y), kind, h.ID)
	return nil
}

// DoFee lets the opener propose a new fee rate.
func (s *Sim) DoFee(rate chainfee.SatPerKWeight) (bool, error) {
	x := s.P.Opener()
	err := s.Sides[x].Chan.UpdateFee(rate)
	if err != nil {
		// UpdateFee validates affordability; any refusal is an
		// outcome of the local policy, not a protocol failure.
		s.tracef("%s update_fee %d: refused (%v)", sideName(x), rate, err)
		s.label("fee_refused")
		return false, nil
	}
	msg := &lnwire.UpdateFee{ChanID: s.ChanID, FeePerKw: uint32(rate)}
	s.send(x, Update{Kind: UFee, Fee: rate, Msg: msg})
	s.tracef("%s update_fee %d", sideName(x), rate)
	return true, nil
}

// DoSign lets x sign the next commitment for its peer.
func (s *Sim) DoSign(x int) error {
	ch := s.Sides[x].Chan
	if !ch.OweCommitment() {
		return violationf("%s: model says a commitment is owed, lnd "+
			"OweCommitment()=false", sideName(x))
	}
	st, err := ch.SignNextCommitment(ctxb)
	if err != nil {
		if IsConstraintErr(err) {
			s.Aborted = fmt.Sprintf("%s sign: %v", sideName(x), err)
			s.tracef("%s sign: constraint %v -> abort", sideName(x), err)
			return nil
		}
		return violationf("%s SignNextCommitment: %v", sideName(x), err)
	}
	msg, err := commitSigMsg(s.ChanID, st.CommitSigs)
	if err != nil {
		return err
	}
	s.recordSign(x, msg)
	s.Q[x] = append(s.Q[x], msg)
	s.tracef("%s sign h=%d own=%d their=%d htlcsigs=%d", sideName(x),
		len(s.M.Sigs[x]), s.M.SignedOwn[x], s.M.SignedTheir[x],
		len(msg.HtlcSigs))
	return nil
}

func commitSigMsg(cid lnwire.ChannelID, cs *lnwallet.CommitSigs) (*lnwire.CommitSig, error) {
	recs, err := lnwire.ParseCustomRecords(cs.AuxSigBlob)
	if err != nil {
		return nil, err
	}
	return &lnwire.CommitSig{
		ChanID: cid, CommitSig: cs.CommitSig, HtlcSigs: cs.HtlcSigs,
		PartialSig: cs.PartialSig, CustomRecords: recs,
	}, nil
}

func (s *Sim) recordSign(x int, msg *lnwire.CommitSig) {
	m := &s.M
	rec := &CommitRec{
		Signer: x, Height: uint64(len(m.Sigs[x]) + 1),
		Own: len(m.U[x]), Their: m.TailTheir[x], PrevOwn: m.SignedOwn[x],
		Msg: msg,
	}
	m.Sigs[x] = append(m.Sigs[x], rec)
	m.SignedOwn[x] = rec.Own
	m.SignedTheir[x] = rec.Their
	m.LastWasRevoke[x] = false
}

// ---------------------------------------------------------------------------
// Delivery.

// DoDeliver pops the head of the x->y queue and applies it on y. If
// sigOnly is set and the message is a CommitSig, y only receives it and
// does not revoke (used to stop exactly between the two calls).
func (s *Sim) DoDeliver(x int, sigOnly bool) error {
	y := 1 - x
	msg := s.Q[x][0]
	s.Q[x] = s.Q[x][1:]
	ch := s.Sides[y].Chan
	m := &s.M

	fail := func(what string, err error) error {
		if IsConstraintErr(err) {
			s.Aborted = fmt.Sprintf("%s %s: %v", sideName(y), what, err)
			s.label("aborted_by_constraint")
			s.tracef("%s recv %s: constraint %v -> abort", sideName(y), what, err)
			return nil
		}
		return violationf("%s rejected honest %s: %v", sideName(y), what, err)
	}

	switch v := msg.(type) {
	case *lnwire.UpdateAddHTLC:
		if _, err := ch.ReceiveHTLC(v); err != nil {
			return fail("update_add_htlc", err)
		}
		m.Recvd[y]++
	case *lnwire.UpdateFulfillHTLC:
		if err := ch.ReceiveHTLCSettle(v.PaymentPreimage, v.ID); err != nil {
			return fail("update_fulfill_htlc", err)
		}
		m.Recvd[y]++
	case *lnwire.UpdateFailHTLC:
		if err := ch.ReceiveFailHTLC(v.ID, v.Reason); err != nil {
			return fail("update_fail_htlc", err)
		}
		m.Recvd[y]++
	case *lnwire.UpdateFailMalformedHTLC:
		// The link converts a malformed fail into an encrypted
		// failure reason before handing it to the state machine.
		if err := ch.ReceiveFailHTLC(v.ID, []byte{0xbb, byte(v.ID)}); err != nil {
			return fail("update_fail_malformed_htlc", err)
		}
		m.Recvd[y]++
	case *lnwire.UpdateFee:
		if err := ch.ReceiveUpdateFee(chainfee.SatPerKWeight(v.FeePerKw)); err != nil {
			return fail("update_fee", err)
		}
		m.Recvd[y]++
	case *lnwire.CommitSig:
		auxBlob, err := v.CustomRecords.Serialize()
		if err != nil {
			return err
		}
		err = ch.ReceiveNewCommitment(&lnwallet.CommitSigs{
			CommitSig: v.CommitSig, HtlcSigs: v.HtlcSigs,
			PartialSig: v.PartialSig, AuxSigBlob: auxBlob,
		})
		if err != nil {
			return fail("commitment_signed", err)
		}
		s.tracef("%s recv sig", sideName(y))
		if sigOnly {
			return nil
		}
		return s.revoke(y)
	case *lnwire.RevokeAndAck:
		return s.recvRevocation(x, v)
	default:
		return fmt.Errorf("unknown message %T", msg)
	}
	s.tracef("%s recv %T", sideName(y), msg)
	return nil
}

// revoke: y revokes its current commitment after accepting a signature.
func (s *Sim) revoke(y int) error {
	x := 1 - y
	m := &s.M
	ch := s.Sides[y].Chan
	h := m.RevsSent[y]
	if int(h) >= len(m.Sigs[x]) {
		return fmt.Errorf("model: %s revoking height %d without "+
			"signature", sideName(y), h)
	}
	rec := m.Sigs[x][h]
	if m.Recvd[y] < rec.Own {
		return fmt.Errorf("model: signature covers %d updates, %s "+
			"received %d", rec.Own, sideName(y), m.Recvd[y])
	}
	if s.OnBeforeRevoke != nil {
		s.OnBeforeRevoke(y, h)
	}
	rev, _, _, err := ch.RevokeCurrentCommitment()
	if err != nil {
		return violationf("%s RevokeCurrentCommitment: %v", sideName(y), err)
	}
	m.TailOwn[y] = rec.Their
	m.TailTheir[y] = rec.Own
	m.RevsSent[y]++
	m.LastWasRevoke[y] = true
	m.RevMsgs[y][h] = rev
	if s.OnRevoke != nil {
		s.OnRevoke(y, h, rev, false)
	}
	s.Q[y] = append(s.Q[y], rev)
	s.tracef("%s revoke h=%d", sideName(y), h)
	return nil
}

// recvRevocation delivers x's revocation to y.
func (s *Sim) recvRevocation(x int, msg *lnwire.RevokeAndAck) error {
	y := 1 - x
	m := &s.M
	ch := s.Sides[y].Chan
	h := m.RevsDelivered[x]
	if int(h) >= len(m.Sigs[y]) {
		return fmt.Errorf("model: revocation without signature")
	}
	rec := m.Sigs[y][h]
	if s.OnRevoked != nil {
		tx := ch.State().RemoteCommitment.CommitTx
		s.OnRevoked(y, h, tx.Copy())
	}
	fwd, _, err := ch.ReceiveRevocation(msg)
	if err != nil {
		return violationf("%s rejected honest revoke_and_ack(h=%d): %v",
			sideName(y), h, err)
	}
	m.RevsDelivered[x]++
	s.FwdPkgs[y] = append(s.FwdPkgs[y], fwd)

	// x's updates covered by the now irrevocable commitment of x.
	old := m.Locked[x]
	if rec.Their > old {
		m.Locked[x] = rec.Their
	}
	var wantAdds, wantRm []lnwire.Message
	for i := old; i < m.Locked[x]; i++ {
		u := m.U[x][i]
		switch u.Kind {
		case UAdd:
			wantAdds = append(wantAdds, u.Msg)
		case USettle, UFail, UMalformed:
			wantRm = append(wantRm, u.Msg)
		}
	}
	if err := cmpFwd("adds", fwd.Adds, wantAdds); err != nil {
		return violationf("%s fwd pkg after revocation h=%d: %v",
			sideName(y), h, err)
	}
	if err := cmpFwd("settle/fails", fwd.SettleFails, wantRm); err != nil {
		return violationf("%s fwd pkg after revocation h=%d: %v",
			sideName(y), h, err)
	}
	s.tracef("%s recv revoke h=%d locked[%s]=%d (+%d adds, +%d rm)",
		sideName(y), h, sideName(x), m.Locked[x], len(wantAdds), len(wantRm))
	return nil
}

// cmpFwd compares a forwarding package's updates with the model's
// prediction by kind and HTLC id, in order.
func cmpFwd(what string, got []channeldb.LogUpdate, want []lnwire.Message) error {
	if len(got) != len(want) {
		return fmt.Errorf("%s: lnd reports %d newly locked-in, model "+
			"%d", what, len(got), len(want))
	}
	for i := range got {
		gk, gid := msgKey(got[i].UpdateMsg)
		wk, wid := msgKey(want[i])
		// A malformed fail is stored as such on the sender only; the
		// receiver holds a plain fail.
		if gk == "fail" && wk == "malformed" {
			gk = wk
		}
		if gk != wk || gid != wid {
			return fmt.Errorf("%s[%d]: lnd %s id=%d, model %s id=%d",
				what, i, gk, gid, wk, wid)
		}
	}
	return nil
}

func msgKey(m lnwire.Message) (string, uint64) {
	switch v := m.(type) {
	case *lnwire.UpdateAddHTLC:
		return "add", v.ID
	case *lnwire.UpdateFulfillHTLC:
		return "settle", v.ID
	case *lnwire.UpdateFailHTLC:
		return "fail", v.ID
	case *lnwire.UpdateFailMalformedHTLC:
		return "malformed", v.ID
	case *lnwire.UpdateFee:
		return "fee", uint64(v.FeePerKw)
	case *lnwire.CommitSig:
		return "sig", 0
	case *lnwire.RevokeAndAck:
		return "rev", 0
	}
	return fmt.Sprintf("%T", m), 0
}

// Quiescent: nothing in flight and nobody owes anything.
func (s *Sim) Quiescent() bool {
	return len(s.Q[0]) == 0 && len(s.Q[1]) == 0 && !s.Owes(0) &&
		!s.Owes(1) && !s.Unacked(0) && !s.Unacked(1)
}

// Drain delivers and signs until quiescent. check (may be nil) runs after
// every step.
func (s *Sim) Drain(check func() error) error {
	for i := 0; i < 10000; i++ {
		if s.Aborted != "" {
			return nil
		}
		progressed := false
		for x := 0; x < 2; x++ {
			for len(s.Q[x]) > 0 && s.Aborted == "" {
				if err := s.DoDeliver(x, false); err != nil {
					return err
				}
				progressed = true
				if check != nil {
					if err := check(); err != nil {
						return err
					}
				}
			}
		}
		for x := 0; x < 2; x++ {
			if s.CanSign(x) {
				if err := s.DoSign(x); err != nil {
					return err
				}
				progressed = true
				if check != nil {
					if err := check(); err != nil {
						return err
					}
				}
			}
		}
		if !progressed {
			if !s.Quiescent() {
				return fmt.Errorf("model: drain stuck: q=%d/%d "+
					"owes=%v/%v unacked=%v/%v", len(s.Q[0]),
					len(s.Q[1]), s.Owes(0), s.Owes(1),
					s.Unacked(0), s.Unacked(1))
			}
			return nil
		}
	}
	return fmt.Errorf("model: drain did not terminate")
}

// ---------------------------------------------------------------------------
// Disconnect / reload / reestablish.

// CutOpts selects the variant of a disconnect.
type CutOpts struct {
	// StripDLP removes the data-loss-protect fields from the
	// reestablish messages.
	StripDLP [2]bool
}

// RetransmitReport says what each side retransmitted.
type RetransmitReport struct {
	OweRev   [2]bool
	OweSig   [2]bool
	ExtraSig [2]bool
	Lost     int
}

// DoCut drops everything in flight, reloads both sides from their
// databases and runs the channel_reestablish exchange the way
// link.syncChanStates does. The retransmitted messages are queued.
func (s *Sim) DoCut(o CutOpts) (*RetransmitReport, error) {
	m := &s.M
	rep := &RetransmitReport{Lost: len(s.Q[0]) + len(s.Q[1])}
	s.Q[0], s.Q[1] = nil, nil

	// Both sides forget what no signature covers.
	for x := 0; x < 2; x++ {
		if len(m.U[x]) > m.SignedOwn[x] {
			s.label("cut_dropped_unsigned")
		}
		m.U[x] = m.U[x][:m.SignedOwn[x]]
	}
	for y := 0; y < 2; y++ {
		m.Recvd[y] = m.TailTheir[y]
	}

	var msgs [2]*lnwire.ChannelReestablish
	for x := 0; x < 2; x++ {
		fresh, err := s.Sides[x].LoadFresh()
		if err != nil {
			return nil, violationf("%s reload failed: %v", sideName(x), err)
		}
		s.Sides[x].Chan = fresh
	}
	for x := 0; x < 2; x++ {
		msg, err := s.Sides[x].Chan.State().ChanSyncMsg()
		if err != nil {
			return nil, violationf("%s ChanSyncMsg: %v", sideName(x), err)
		}
		if err := s.checkReestablish(x, msg); err != nil {
			return nil, err
		}
		if o.StripDLP[x] {
			msg.LocalUnrevokedCommitPoint = nil
			msg.LastRemoteCommitSecret = [32]byte{}
		}
		msgs[x] = msg
	}
	s.tracef("cut lost=%d stripDLP=%v  A.reest(next=%d,tail=%d) "+
		"B.reest(next=%d,tail=%d)", rep.Lost, o.StripDLP,
		msgs[0].NextLocalCommitHeight, msgs[0].RemoteCommitTailHeight,
		msgs[1].NextLocalCommitHeight, msgs[1].RemoteCommitTailHeight)

	for x := 0; x < 2; x++ {
		y := 1 - x
		out, _, _, err := s.Sides[x].Chan.ProcessChanSyncMsg(ctxb, msgs[y])
		if err != nil && IsConstraintErr(err) && s.Owes(x) {
			// lnd signs a fresh commitment right after
			// retransmitting a revocation when it owes one. The
			// updates it has to cover can be unaffordable together
			// (update_fee by the opener crossing adds by the peer):
			// the same documented race DoSign ends a case on. It
			// is not a resynchronisation failure.
			s.Aborted = fmt.Sprintf("%s sign during resync: %v",
				sideName(x), err)
			s.tracef("%s resync: constraint %v -> abort",
				sideName(x), err)
			s.label("abort_constraint_race_on_resync")

			return rep, nil
		}
		if err != nil {
			return nil, violationf("%s ProcessChanSyncMsg failed "+
				"between honest peers: %v", sideName(x), err)
		}

		oweRev := m.RevsSent[x] > m.RevsDelivered[x]
		oweSig := uint64(len(m.Sigs[x])) > m.RevsSent[y]
		rep.OweRev[x], rep.OweSig[x] = oweRev, oweSig

		var want []lnwire.Message
		var sigPart []lnwire.Message
		if oweSig {
			rec := m.Sigs[x][len(m.Sigs[x])-1]
			for _, u := range m.U[x][rec.PrevOwn:rec.Own] {
				sigPart = append(sigPart, u.Msg)
			}
			sigPart = append(sigPart, rec.Msg)
		}
		var revPart []lnwire.Message
		if oweRev {
			revPart = append(revPart, m.RevMsgs[x][m.RevsSent[x]-1])
		}
		if m.LastWasRevoke[x] {
			want = append(append(want, sigPart...), revPart...)
		} else {
			want = append(append(want, revPart...), sigPart...)
		}

		got := out
		// The documented extra: when a revocation is owed and x also
		// owes a commitment, x signs afresh.
		if len(got) == len(want)+1 && oweRev && !oweSig {
			if cs, ok := got[len(got)-1].(*lnwire.CommitSig); ok {
				if !s.Owes(x) {
					return nil, violationf("%s sent an extra "+
						"commit_sig on reestablish while "+
						"owing no commitment", sideName(x))
				}
				rep.ExtraSig[x] = true
				s.recordSign(x, cs)
				got = got[:len(got)-1]
				s.label("resync_extra_sig")
			}
		}
		// A fee update that is superseded by a later one inside the
		// same signed batch has no effect on any commitment; lnd does
		// not retransmit it. Both lists are compared without such
		// void updates, and the peer is credited with having "seen"
		// them.
		wantN, dropped := dropSupersededFees(want)
		gotN, _ := dropSupersededFees(got)
		if err := s.cmpRetransmit(x, gotN, wantN); err != nil {
			return nil, err
		}
		if d := len(want) - len(got); d > 0 && d <= dropped {
			dropped = d
			m.Recvd[y] += dropped
			s.label("resync_superseded_fee_dropped")
		}
		if oweRev && s.OnRevoke != nil {
			for _, om := range out {
				if r, ok := om.(*lnwire.RevokeAndAck); ok {
					s.OnRevoke(x, m.RevsSent[x]-1, r, true)
				}
			}
		}
		s.Q[x] = append(s.Q[x], out...)
		s.tracef("%s retransmits %s", sideName(x), describeMsgs(out))
	}
	return rep, nil
}

// dropSupersededFees normalises the update_fee messages of a retransmitted
// batch: only the last one has an effect and its position relative to the
// other updates of the same signed batch is immaterial (lnd coalesces fee
// updates that no commitment covers yet), so the surviving one is moved in
// front of the batch's other updates.
func dropSupersededFees(ms []lnwire.Message) ([]lnwire.Message, int) {
	lastFee, firstUpd := -1, -1
	for i, m := range ms {
		switch m.(type) {
		case *lnwire.UpdateFee:
			lastFee = i
			if firstUpd < 0 {
				firstUpd = i
			}
		case *lnwire.CommitSig, *lnwire.RevokeAndAck:
		default:
			if firstUpd < 0 {
				firstUpd = i
			}
		}
	}
	var out []lnwire.Message
	dropped := 0
	for i, m := range ms {
		if i == firstUpd && lastFee >= 0 {
			out = append(out, ms[lastFee])
		}
		if _, ok := m.(*lnwire.UpdateFee); ok {
			if i != lastFee {
				dropped++
			}
			continue
		}
		out = append(out, m)
	}
	return out, dropped
}

func describeMsgs(ms []lnwire.Message) string {
	out := "["
	for i, m := range ms {
		if i > 0 {
			out += " "
		}
		k, id := msgKey(m)
		out += fmt.Sprintf("%s:%d", k, id)
	}
	return out + "]"
}

func (s *Sim) cmpRetransmit(x int, got, want []lnwire.Message) error {
	if len(got) != len(want) {
		return violationf("%s retransmitted %s, the peer is missing "+
			"exactly %s", sideName(x), describeMsgs(got),
			describeMsgs(want))
	}
	for i := range got {
		gk, gid := msgKey(got[i])
		wk, wid := msgKey(want[i])
		if gk != wk || gid != wid {
			return violationf("%s retransmitted %s, the peer is "+
				"missing exactly %s", sideName(x),
				describeMsgs(got), describeMsgs(want))
		}
		switch g := got[i].(type) {
		case *lnwire.RevokeAndAck:
			w := want[i].(*lnwire.RevokeAndAck)
			if g.Revocation != w.Revocation ||
				!g.NextRevocationKey.IsEqual(w.NextRevocationKey) {

				return violationf("%s retransmitted a different "+
					"revoke_and_ack than originally sent",
					sideName(x))
			}
		case *lnwire.CommitSig:
			w := want[i].(*lnwire.CommitSig)
			if !s.P.ChanType.IsTaproot() {
				if !sameSigs(g, w) {

					return violationf("%s retransmitted a "+
						"different commit_sig", sideName(x))
				}
			} else if len(g.HtlcSigs) != len(w.HtlcSigs) {
				return violationf("%s retransmitted commit_sig "+
					"with %d htlc sigs, originally %d",
					sideName(x), len(g.HtlcSigs), len(w.HtlcSigs))
			}
			// Later deliveries use the retransmitted message.
			for _, rec := range s.M.Sigs[x] {
				if rec.Msg == w {
					rec.Msg = g
				}
			}
		default:
			if err := sameUpdate(got[i], want[i]); err != nil {
				return violationf("%s retransmitted update %d "+
					"altered: %v", sideName(x), i, err)
			}
		}
	}
	return nil
}

func sameSigs(a, b *lnwire.CommitSig) bool {
	if !bytes.Equal(a.CommitSig.RawBytes(), b.CommitSig.RawBytes()) ||
		len(a.HtlcSigs) != len(b.HtlcSigs) {

		return false
	}
	for i := range a.HtlcSigs {
		if !bytes.Equal(a.HtlcSigs[i].RawBytes(), b.HtlcSigs[i].RawBytes()) {
			return false
		}
	}
	return true
}

func sameUpdate(a, b lnwire.Message) error {
	var ba, bb bytes.Buffer
	if _, err := lnwire.WriteMessage(&ba, a, 0); err != nil {
		return err
	}
	if _, err := lnwire.WriteMessage(&bb, b, 0); err != nil {
		return err
	}
	if !bytes.Equal(ba.Bytes(), bb.Bytes()) {
		return fmt.Errorf("wire encodings differ: %x vs %x",
			ba.Bytes()[:min(40, ba.Len())], bb.Bytes()[:min(40, bb.Len())])
	}
	return nil
}

// RevokedTx is used by OnRevoked consumers.
type RevokedTx struct {
	Side   int // the side that can punish
	Height uint64
	Tx     *wire.MsgTx
}

// DoFault exercises one state-machine call of the property "nothing is
// handed out unless it is durable": the acting side's database refuses all
// writes during the call. The call must return an error and hand out no
// message. Afterwards the in-memory channel object is unusable (lnd fails the
// link); the caller cuts the connection so both sides reload.
//
//	faultSign x:    x.SignNextCommitment with x's DB failing
//	faultRevoke x:  the peer of x receives x's commit_sig, then its
//	                RevokeCurrentCommitment runs with its DB failing
//	faultRecvRev x: the peer of x receives x's revoke_and_ack with its DB
//	                failing
func (s *Sim) DoFault(kind string, x int) error {
	y := 1 - x
	switch kind {
	case "faultSign":
		side := s.Sides[x]
		side.Fault.Arm()
		st, err := side.Chan.SignNextCommitment(ctxb)
		side.Fault.Disarm()
		if err == nil {
			return violationf("%s handed out a commitment signature "+
				"(%d htlc sigs) although the pending commitment "+
				"could not be made durable", side.Name,
				len(st.HtlcSigs))
		}
		s.label("fault_sign")
		s.tracef("%s sign with failing DB: %v", side.Name, err)

	case "faultRevoke":
		if err := s.DoDeliver(x, true); err != nil {
			return err
		}
		if s.Aborted != "" {
			return nil
		}
		side := s.Sides[y]
		side.Fault.Arm()
		rev, _, _, err := side.Chan.RevokeCurrentCommitment()
		side.Fault.Disarm()
		if err == nil || rev != nil {
			return violationf("%s handed out the revocation of its "+
				"commitment although the new commitment could not "+
				"be made durable (err=%v)", side.Name, err)
		}
		s.label("fault_revoke")
		s.tracef("%s revoke with failing DB: %v", side.Name, err)

	case "faultRecvRev":
		msg := s.Q[x][0].(*lnwire.RevokeAndAck)
		s.Q[x] = s.Q[x][1:]
		side := s.Sides[y]
		side.Fault.Arm()
		_, _, err := side.Chan.ReceiveRevocation(msg)
		side.Fault.Disarm()
		if err == nil {
			return violationf("%s accepted a revocation although it "+
				"could not persist it", side.Name)
		}
		s.label("fault_recv_revocation")
		s.tracef("%s recv revoke with failing DB: %v", side.Name, err)
	}
	return nil
}

// checkReestablish compares the channel_reestablish of x with the model
// (BOLT-2): next_commitment_number is the number of the next commitment x
// expects a signature for, next_revocation_number the number of revocations it
// has received, your_last_per_commitment_secret the last of those, and
// my_current_per_commitment_point the point of x's current (unrevoked)
// commitment on x's own derivation chain.
func (s *Sim) checkReestablish(x int, msg *lnwire.ChannelReestablish) error {
	m := &s.M
	y := 1 - x
	name := sideName(x)

	if want := m.RevsSent[x] + 1; msg.NextLocalCommitHeight != want {
		return violationf("%s channel_reestablish: "+
			"next_commitment_number=%d, but it has revoked %d "+
			"commitments (want %d)", name,
			msg.NextLocalCommitHeight, m.RevsSent[x], want)
	}
	if want := m.RevsDelivered[y]; msg.RemoteCommitTailHeight != want {
		return violationf("%s channel_reestablish: "+
			"next_revocation_number=%d, but it has received %d "+
			"revocations", name, msg.RemoteCommitTailHeight, want)
	}

	var wantSecret [32]byte
	if n := m.RevsDelivered[y]; n > 0 {
		sec, err := s.Sides[y].Chan.State().RevocationProducer.AtIndex(n - 1)
		if err != nil {
			return err
		}
		wantSecret = *sec
	}
	if msg.LastRemoteCommitSecret != wantSecret {
		return violationf("%s channel_reestablish: "+
			"your_last_per_commitment_secret is not the secret of "+
			"the last commitment the peer revoked (#%d)", name,
			int64(m.RevsDelivered[y])-1)
	}

	sec, err := s.Sides[x].Chan.State().RevocationProducer.AtIndex(
		m.RevsSent[x],
	)
	if err != nil {
		return err
	}
	wantPoint := input.ComputeCommitmentPoint(sec[:])
	if msg.LocalUnrevokedCommitPoint == nil ||
		!msg.LocalUnrevokedCommitPoint.IsEqual(wantPoint) {

		return violationf("%s channel_reestablish: "+
			"my_current_per_commitment_point is not the point of "+
			"its current commitment #%d on its own chain", name,
			m.RevsSent[x])
	}
	s.label("reestablish_fields_checked")
	if m.RevsSent[x] != uint64(len(m.Sigs[x])) {
		s.label("reestablish_heights_differ")
	}

	return nil
}

// DoAdmin performs one of the channel-record writes that another subsystem of
// lnd makes through its OWN, never refreshed handle of the channel while the
// link is using the channel: on a zero-conf channel the funding manager
// records the confirmation height (MarkConfirmationHeight) and the real short
// channel id (MarkRealScid) long after the first updates; after the latter
// lnd refreshes the link's handle from disk (link.UpdateShortChanID ->
// OpenChannel.Refresh). On any channel the chain watcher, whose handle was
// loaded at start-up, records the height at which a spend of the funding
// output was first seen in a block (MarkCloseConfirmationHeight) and clears it
// when that block is reorged out (ResetCloseConfirmationHeight); the link keeps
// working meanwhile. Such a write must change only its own field: all
// reload / agreement oracles keep applying to the state found on disk.
func (s *Sim) DoAdmin(x int, kind int, v uint32) error {
	side := s.Sides[x]
	switch kind {
	case 0:
		s.tracef("%s: MarkConfirmationHeight(%d) via stale handle", side.Name, v)
		if err := side.Stale.MarkConfirmationHeight(v); err != nil {
			return violationf("%s: MarkConfirmationHeight: %v", side.Name, err)
		}
		s.label("admin_conf_height")
	case 2:
		s.tracef("%s: MarkCloseConfirmationHeight(%d) via stale handle", side.Name, v)
		if err := side.Stale.MarkCloseConfirmationHeight(fn.Some(v)); err != nil {
			return violationf("%s: MarkCloseConfirmationHeight: %v", side.Name, err)
		}
		s.label("admin_close_height")
	case 3:
		s.tracef("%s: ResetCloseConfirmationHeight via stale handle", side.Name)
		if err := side.Stale.ResetCloseConfirmationHeight(); err != nil {
			return violationf("%s: ResetCloseConfirmationHeight: %v", side.Name, err)
		}
		s.label("admin_close_height_reset")
	default:
		scid := lnwire.NewShortChanIDFromInt(uint64(v)<<40 | 1<<16 | uint64(x))
		s.tracef("%s: MarkRealScid(%v) via stale handle, link handle refreshed", side.Name, scid)
		if err := side.Stale.MarkRealScid(scid); err != nil {
			return violationf("%s: MarkRealScid: %v", side.Name, err)
		}
		if err := side.Chan.State().Refresh(); err != nil {
			return violationf("%s: Refresh after MarkRealScid: %v", side.Name, err)
		}
		s.label("admin_real_scid")
	}
	if s.M.RevsSent[x] > 0 || len(s.M.Sigs[x]) > 0 {
		s.label("admin_write_after_first_update")
	}
	return nil
}
