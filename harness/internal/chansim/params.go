//go:build verif

// Package chansim is a two-party channel simulator over lnd's exported
// lnwallet API, driven by rapid. It owns both in-order message queues, a
// reconnect/reload switch and a reference model of which updates every
// commitment covers, from which it predicts commitment contents (balances,
// HTLC sets, fees) independently of lnd's update logs.
//
// It exists only in the verification overlay (internal/verif/chansim).
package chansim

import (
	"crypto/sha256"
	"fmt"

	"github.com/btcsuite/btcd/btcutil/v2"
	"github.com/lightningnetwork/lnd/channeldb"
	"github.com/lightningnetwork/lnd/lnwallet/chainfee"
	"pgregory.net/rapid"
)

// TB is the part of testing.TB / *rapid.T the simulator needs.
type TB interface {
	Fatalf(format string, args ...any)
	Logf(format string, args ...any)
	Helper()
}

// ChanTypeNames maps generated channel type names to lnd's bit sets, built
// the way lnwallet/reservation.go combines them.
var ChanTypeNames = []string{
	"legacy", "tweakless", "anchors", "anchors-zero-fee", "lease",
	"taproot", "taproot-final", "taproot-overlay",
}

// ChanTypeOf returns the channel type bits of a named type.
func ChanTypeOf(name string) channeldb.ChannelType {
	const anchorsZF = channeldb.SingleFunderTweaklessBit |
		channeldb.AnchorOutputsBit | channeldb.ZeroHtlcTxFeeBit

	switch name {
	case "legacy":
		return channeldb.SingleFunderBit
	case "tweakless":
		return channeldb.SingleFunderTweaklessBit
	case "anchors":
		return channeldb.SingleFunderTweaklessBit |
			channeldb.AnchorOutputsBit
	case "anchors-zero-fee":
		return anchorsZF
	case "lease":
		return anchorsZF | channeldb.LeaseExpirationBit
	case "taproot":
		return anchorsZF | channeldb.SimpleTaprootFeatureBit
	case "taproot-final":
		return anchorsZF | channeldb.SimpleTaprootFeatureBit |
			channeldb.TaprootFinalBit
	case "taproot-overlay":
		return anchorsZF | channeldb.SimpleTaprootFeatureBit |
			channeldb.TapscriptRootBit
	}
	panic("unknown channel type " + name)
}

// Params are the generated parameters of a channel pair. Index 0 is side A,
// index 1 side B.
type Params struct {
	TypeName   string
	ChanType   channeldb.ChannelType
	InitiatorA bool
	Capacity   btcutil.Amount
	// Funded is each side's balance before the opener pays fee+anchors.
	Funded    [2]btcutil.Amount
	Dust      [2]btcutil.Amount
	Reserve   [2]btcutil.Amount
	Csv       [2]uint16
	MaxHtlcs  [2]uint16
	MinHTLC   [2]uint64 // msat
	FeePerKw  chainfee.SatPerKWeight
	Thaw      uint32
	Seed      [32]byte
	NoAmtData bool
	// ZeroConf: the channel carries the zero-conf and scid-alias type bits
	// (orthogonal to the commitment format). Such a channel is in use
	// before its funding transaction confirms, so the funding manager's
	// writes (confirmation height, real scid), made through its OWN handle
	// of the channel record, land in the middle of the update dance.
	ZeroConf bool
	// RetryTx: every database write transaction of both sides runs its
	// closure twice (first execution rolled back), see FaultDB.Retry.
	RetryTx bool
}

func (p Params) String() string {
	return fmt.Sprintf("type=%s openerA=%v cap=%d funded=%v dust=%v "+
		"reserve=%v csv=%v maxHtlcs=%v fee=%d noAmt=%v zeroConf=%v", p.TypeName,
		p.InitiatorA, p.Capacity, p.Funded, p.Dust, p.Reserve, p.Csv,
		p.MaxHtlcs, p.FeePerKw, p.NoAmtData, p.ZeroConf)
}

// Opener returns the index (0/1) of the channel opener.
func (p Params) Opener() int {
	if p.InitiatorA {
		return 0
	}
	return 1
}

// DrawParams draws channel parameters. types restricts the channel types
// (nil = all).
func DrawParams(t *rapid.T, types []string) Params {
	if len(types) == 0 {
		types = ChanTypeNames
	}
	var p Params
	p.TypeName = rapid.SampledFrom(types).Draw(t, "chanType")
	p.ChanType = ChanTypeOf(p.TypeName)
	p.InitiatorA = rapid.Bool().Draw(t, "openerA")

	// Capacity 1e5..1e9 sat, log-uniform-ish.
	exp := rapid.IntRange(5, 9).Draw(t, "capExp")
	lo, hi := pow10(exp), pow10(exp+1)-1
	if exp == 9 {
		hi = lo
	}
	p.Capacity = btcutil.Amount(rapid.Int64Range(lo, hi).Draw(t, "capacity"))

	for i := 0; i < 2; i++ {
		p.Dust[i] = btcutil.Amount(
			rapid.Int64Range(200, 3000).Draw(t, "dust"),
		)
		p.Csv[i] = uint16(rapid.IntRange(1, 2016).Draw(t, "csv"))
		if rapid.IntRange(0, 2).Draw(t, "smallMax") == 0 {
			p.MaxHtlcs[i] = uint16(rapid.IntRange(2, 10).Draw(t, "maxHtlcs"))
		} else {
			p.MaxHtlcs[i] = 241 // input.MaxHTLCNumber / 2
		}
		if rapid.IntRange(0, 3).Draw(t, "minHtlcKind") == 0 {
			p.MinHTLC[i] = uint64(rapid.Int64Range(1, 2_000_000).Draw(t, "minHtlc"))
		}
	}
	// Reserve: 1% like lnd's default, never below the dust limits
	// (BOLT-2 requires reserve >= dust limit of the other side).
	for i := 0; i < 2; i++ {
		r := p.Capacity / 100
		if r < p.Dust[0] {
			r = p.Dust[0]
		}
		if r < p.Dust[1] {
			r = p.Dust[1]
		}
		p.Reserve[i] = r
	}

	// The opener must be able to afford the commitment at the drawn
	// rate: reserve + fee(2000 wu) + anchors + 2% of capacity <= capacity.
	feeMax := int64(50000)
	if room := int64(p.Capacity) - int64(p.Reserve[0]) - 660 -
		int64(p.Capacity)/50; room*1000/2000 < feeMax {

		feeMax = room * 1000 / 2000
	}
	if feeMax < 253 {
		feeMax = 253
	}
	p.FeePerKw = chainfee.SatPerKWeight(
		rapid.Int64Range(253, feeMax).Draw(t, "feePerKw"),
	)
	if rapid.IntRange(0, 3).Draw(t, "lowFee") == 0 {
		p.FeePerKw = chainfee.SatPerKWeight(
			rapid.Int64Range(253, 1500).Draw(t, "feePerKwLow"),
		)
	}
	if p.ChanType.HasLeaseExpiration() {
		p.Thaw = uint32(rapid.IntRange(1000, 800000).Draw(t, "thaw"))
	}

	copy(p.Seed[:], rapid.SliceOfN(rapid.Byte(), 32, 32).Draw(t, "seed"))
	// Derived from the drawn seed (no draw of its own, so that the draw
	// sequence of all other parameters and saved replays stay as they are).
	p.RetryTx = p.Seed[9]%4 == 0
	if p.Seed[7]%3 == 0 {
		p.ZeroConf = true
		p.ChanType |= channeldb.ZeroConfBit | channeldb.ScidAliasChanBit
	}
	p.NoAmtData = rapid.IntRange(0, 2).Draw(t, "noAmtData") == 0

	// Split: the opener must afford fee + anchors + reserve; pick the
	// opener's share between that minimum and capacity - other reserve
	// (the non-opener may start at 0, like a channel without push).
	op := p.Opener()
	minOpener := p.Reserve[op] + p.FeePerKw.FeeForWeight(2000) + 660 +
		p.Capacity/50
	maxOpener := p.Capacity
	kind := rapid.IntRange(0, 3).Draw(t, "splitKind")
	var openerShare btcutil.Amount
	switch kind {
	case 0: // everything with the opener
		openerShare = maxOpener
	case 1: // balanced
		openerShare = p.Capacity / 2
	default:
		lo := minOpener
		if lo > maxOpener {
			lo = maxOpener
		}
		openerShare = btcutil.Amount(rapid.Int64Range(
			int64(lo), int64(maxOpener),
		).Draw(t, "openerShare"))
	}
	if minOpener > maxOpener {
		minOpener = maxOpener
	}
	if openerShare < minOpener {
		openerShare = minOpener
	}
	if openerShare > p.Capacity {
		openerShare = p.Capacity
	}
	p.Funded[op] = openerShare
	p.Funded[1-op] = p.Capacity - openerShare

	return p
}

func pow10(e int) int64 {
	v := int64(1)
	for i := 0; i < e; i++ {
		v *= 10
	}
	return v
}

// hashN derives deterministic 32 bytes from the seed and a tag.
func (p Params) hashN(tag string, n int) [32]byte {
	return sha256.Sum256([]byte(fmt.Sprintf("%x/%s/%d", p.Seed, tag, n)))
}
