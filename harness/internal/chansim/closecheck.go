//go:build verif

package chansim

import (
	"bytes"
	"fmt"

	"github.com/btcsuite/btcd/btcec/v2"
	"github.com/btcsuite/btcd/btcutil/v2"
	"github.com/btcsuite/btcd/txscript/v2"
	"github.com/btcsuite/btcd/wire/v2"
	"github.com/lightningnetwork/lnd/chainntnfs"
	"github.com/lightningnetwork/lnd/channeldb"
	"github.com/lightningnetwork/lnd/fn/v2"
	"github.com/lightningnetwork/lnd/input"
	"github.com/lightningnetwork/lnd/lnwallet"
)

// VerifyInput runs Bitcoin's script interpreter with standard flags over
// input idx of tx, spending prev.
func VerifyInput(tx *wire.MsgTx, idx int, prev *wire.TxOut) error {
	fetcher := txscript.NewCannedPrevOutputFetcher(prev.PkScript, prev.Value)
	hashes := txscript.NewTxSigHashes(tx, fetcher)
	vm, err := txscript.NewEngine(
		prev.PkScript, tx, idx, txscript.StandardVerifyFlags, nil,
		hashes, prev.Value, fetcher,
	)
	if err != nil {
		return err
	}
	return vm.Execute()
}

// VerifyInputFetcher is VerifyInput for multi-input transactions: fetcher
// must know every previous output (taproot sighashes commit to all of them).
func VerifyInputFetcher(tx *wire.MsgTx, idx int, prev *wire.TxOut,
	fetcher txscript.PrevOutputFetcher) error {

	hashes := txscript.NewTxSigHashes(tx, fetcher)
	vm, err := txscript.NewEngine(
		prev.PkScript, tx, idx, txscript.StandardVerifyFlags, nil,
		hashes, prev.Value, fetcher,
	)
	if err != nil {
		return err
	}
	return vm.Execute()
}

// sweepAround builds a one-input sweep transaction around inp the way the
// sweeper does (sequence = blocks to maturity, lock time = required lock
// time), lets the input craft its witness and runs the interpreter against
// the real previous output. seqDelta/lockDelta perturb sequence and lock time
// for negative controls.
func sweepAround(signer input.Signer, inp input.Input, prev *wire.TxOut,
	seqDelta, lockDelta int64) error {

	tx := wire.NewMsgTx(2)
	seq := int64(inp.BlocksToMaturity()) + seqDelta
	if seq < 0 {
		seq = 0
	}
	tx.AddTxIn(&wire.TxIn{
		PreviousOutPoint: inp.OutPoint(),
		Sequence:         uint32(seq),
	})
	val := prev.Value - 200
	if val < 0 {
		val = 0
	}
	tx.AddTxOut(&wire.TxOut{Value: val, PkScript: bytes.Repeat([]byte{0x51}, 1)})
	if lt, ok := inp.RequiredLockTime(); ok {
		l := int64(lt) + lockDelta
		if l < 0 {
			l = 0
		}
		tx.LockTime = uint32(l)
	}
	fetcher := txscript.NewCannedPrevOutputFetcher(prev.PkScript, prev.Value)
	hashes := txscript.NewTxSigHashes(tx, fetcher)
	script, err := inp.CraftInputScript(signer, tx, hashes, fetcher, 0)
	if err != nil {
		return fmt.Errorf("craft witness: %w", err)
	}
	tx.TxIn[0].Witness = script.Witness
	tx.TxIn[0].SignatureScript = script.SigScript
	return VerifyInput(tx, 0, prev)
}

// CloseStats counts what a close check validated.
type CloseStats struct {
	CommitTxs, TimeoutTxs, SuccessTxs, SecondLevelSweeps int
	ToLocal, ToRemote, DirectHtlcClaims, Anchors         int
	NegativeControls                                     int
	SkippedHeight0                                       int
}

func (a *CloseStats) Add(b CloseStats) {
	a.CommitTxs += b.CommitTxs
	a.TimeoutTxs += b.TimeoutTxs
	a.SuccessTxs += b.SuccessTxs
	a.SecondLevelSweeps += b.SecondLevelSweeps
	a.ToLocal += b.ToLocal
	a.ToRemote += b.ToRemote
	a.DirectHtlcClaims += b.DirectHtlcClaims
	a.Anchors += b.Anchors
	a.NegativeControls += b.NegativeControls
	a.SkippedHeight0 += b.SkippedHeight0
}

func (s *Sim) leaseExpiryFor(x int) uint32 {
	if s.P.ChanType.HasLeaseExpiration() && s.P.Opener() == x {
		return s.P.Thaw
	}
	return 0
}

func outAt(tx *wire.MsgTx, op wire.OutPoint) (*wire.TxOut, error) {
	if op.Hash != tx.TxHash() {
		return nil, fmt.Errorf("outpoint %v does not reference tx %v", op,
			tx.TxHash())
	}
	if int(op.Index) >= len(tx.TxOut) {
		return nil, fmt.Errorf("outpoint index %d out of range", op.Index)
	}
	return tx.TxOut[op.Index], nil
}

// preimageOf looks up the preimage of an HTLC the harness generated.
func (s *Sim) preimageOf(hash [32]byte) ([32]byte, bool) {
	for z := 0; z < 2; z++ {
		for _, u := range s.M.U[z] {
			if u.Kind == UAdd && u.H.Hash == hash {
				return u.H.Preimage, true
			}
		}
	}
	return [32]byte{}, false
}

// CheckLocalClose: side x, loaded afresh from disk, force closes. The signed
// commitment must validate against the funding output; every second-level
// HTLC transaction and every sweep descriptor must validate under script
// rules (timeout at expiry, success with the preimage, delayed outputs after
// the CSV delay and not before), and there must be a resolution for exactly
// the outputs the model says x owns on that commitment.
func (s *Sim) CheckLocalClose(x int) (CloseStats, error) {
	ch, err := s.Sides[x].LoadFresh()
	if err != nil {
		return CloseStats{}, violationf("%s: reload failed: %v",
			sideName(x), err)
	}

	return s.checkLocalClose(x, ch, sideName(x))
}

// CheckLocalCloseLive is CheckLocalClose on the live channel object of x
// instead of a freshly loaded one. It is meant for the window in which the
// two differ: between accepting a new commitment signature and revoking the
// old commitment, when the in-memory local chain is one commitment ahead of
// the durable one. What ForceClose returns there must still be the durable
// commitment with resolutions that spend it.
func (s *Sim) CheckLocalCloseLive(x int) (CloseStats, error) {
	ch := s.Sides[x].Chan
	cs, err := s.checkLocalClose(x, ch, sideName(x)+" (live object)")
	// ForceClose marks the object closed (only cooperative close
	// consults the mark); undo it, the schedule goes on.
	ch.VerifClearClosed()

	return cs, err
}

func (s *Sim) checkLocalClose(x int, ch *lnwallet.LightningChannel,
	name string) (CloseStats, error) {

	var cs CloseStats
	side := s.Sides[x]
	st := ch.State()
	if st.LocalCommitment.CommitHeight == 0 {
		// The height-0 commitment carries the fixture's dummy
		// signature (no funding flow was run).
		cs.SkippedHeight0++
		return cs, nil
	}
	sum, err := ch.ForceClose()
	if err != nil {
		return cs, violationf("%s: ForceClose failed: %v", name, err)
	}
	commitTx := sum.CloseTx
	funding := ch.FundingTxOut()
	if err := VerifyInput(commitTx, 0, funding); err != nil {
		return cs, violationf("%s: own signed commitment h=%d is not "+
			"valid against the funding output: %v", name,
			st.LocalCommitment.CommitHeight, err)
	}
	cs.CommitTxs++
	if !SameTxNoWitness(commitTx, st.LocalCommitment.CommitTx) {
		return cs, violationf("%s: broadcast commitment differs from "+
			"the persisted one", name)
	}

	res, err := sum.ContractResolutions.UnwrapOrErr(fmt.Errorf("no resolutions"))
	if err != nil {
		return cs, violationf("%s: %v", name, err)
	}
	e := s.Expect(x, s.M.RevsSent[x], s.covLocal(x))
	lease := s.leaseExpiryFor(x)
	ct := s.P.ChanType

	// to_local
	ownSat := btcutil.Amount(uint64(e.Stored[x]) / 1000)
	wantToLocal := ownSat >= s.P.Dust[x]
	if (res.CommitResolution != nil) != wantToLocal {
		return cs, violationf("%s: own commitment: to_local resolution "+
			"present=%v, model balance %d sat dust %d", name,
			res.CommitResolution != nil, ownSat, s.P.Dust[x])
	}
	if cr := res.CommitResolution; cr != nil {
		prev, err := outAt(commitTx, cr.SelfOutPoint)
		if err != nil {
			return cs, violationf("%s: to_local: %v", name, err)
		}
		if btcutil.Amount(prev.Value) != ownSat {
			return cs, violationf("%s: to_local output %d sat, balance "+
				"%d sat", name, prev.Value, ownSat)
		}
		if cr.MaturityDelay != uint32(s.P.Csv[x]) {
			return cs, violationf("%s: to_local maturity delay %d, "+
				"channel CSV %d", name, cr.MaturityDelay, s.P.Csv[x])
		}
		var wt input.WitnessType
		switch {
		case ct.IsTaprootFinal():
			wt = input.TaprootLocalCommitSpendFinal
		case ct.IsTaproot():
			wt = input.TaprootLocalCommitSpend
		case lease > 0:
			wt = input.LeaseCommitmentTimeLock
		default:
			wt = input.CommitmentTimeLock
		}
		mk := func() input.Input {
			if lease > 0 {
				return input.NewCsvInputWithCltv(&cr.SelfOutPoint, wt,
					&cr.SelfOutputSignDesc, 0, cr.MaturityDelay, lease)
			}
			return input.NewCsvInput(&cr.SelfOutPoint, wt,
				&cr.SelfOutputSignDesc, 0, cr.MaturityDelay)
		}
		if err := sweepAround(side.Signer, mk(), prev, 0, 0); err != nil {
			return cs, violationf("%s: to_local sweep after CSV delay "+
				"is invalid: %v", name, err)
		}
		cs.ToLocal++
		if err := sweepAround(side.Signer, mk(), prev, -1, 0); err == nil {
			return cs, violationf("%s: to_local spendable one block "+
				"before the CSV delay", name)
		}
		cs.NegativeControls++
		if lease > 0 {
			if err := sweepAround(side.Signer, mk(), prev, 0, -1); err == nil {
				return cs, violationf("%s: lease to_local spendable "+
					"before the lease expiry", name)
			}
			cs.NegativeControls++
		}
	}

	// HTLCs: which ones have outputs on x's commitment.
	var wantOut, wantIn int
	for _, h := range e.NonDust {
		if h.From == x {
			wantOut++
		} else {
			wantIn++
		}
	}
	hr := res.HtlcResolutions
	if hr == nil {
		hr = &lnwallet.HtlcResolutions{}
	}
	if len(hr.OutgoingHTLCs) != wantOut || len(hr.IncomingHTLCs) != wantIn {
		return cs, violationf("%s: own commitment: %d outgoing / %d "+
			"incoming HTLC resolutions, the commitment has %d / %d "+
			"HTLC outputs", name, len(hr.OutgoingHTLCs),
			len(hr.IncomingHTLCs), wantOut, wantIn)
	}
	usedOuts := map[uint32]bool{}
	secondLevel := func(kind string, tx *wire.MsgTx, claim wire.OutPoint,
		sd *input.SignDescriptor, csv uint32, incoming bool) error {

		prev, err := outAt(tx, claim)
		if err != nil {
			return violationf("%s: %s second level: %v", name, kind, err)
		}
		if csv != uint32(s.P.Csv[x]) {
			return violationf("%s: %s second-level CSV %d, channel "+
				"CSV %d", name, kind, csv, s.P.Csv[x])
		}
		var wt, lwt input.StandardWitnessType
		switch {
		case incoming && ct.IsTaprootFinal():
			wt = input.TaprootHtlcAcceptedSuccessSecondLevelFinal
		case incoming && ct.IsTaproot():
			wt = input.TaprootHtlcAcceptedSuccessSecondLevel
		case incoming:
			wt = input.HtlcAcceptedSuccessSecondLevel
		case ct.IsTaprootFinal():
			wt = input.TaprootHtlcOfferedTimeoutSecondLevelFinal
		case ct.IsTaproot():
			wt = input.TaprootHtlcOfferedTimeoutSecondLevel
		default:
			wt = input.HtlcOfferedTimeoutSecondLevel
		}
		if incoming {
			lwt = input.LeaseHtlcAcceptedSuccessSecondLevel
		} else {
			lwt = input.LeaseHtlcOfferedTimeoutSecondLevel
		}
		mk := func() input.Input {
			if lease > 0 {
				return input.NewCsvInputWithCltv(&claim, lwt, sd, 0,
					csv, lease)
			}
			return input.NewCsvInput(&claim, wt, sd, 0, csv)
		}
		if err := sweepAround(side.Signer, mk(), prev, 0, 0); err != nil {
			return violationf("%s: sweep of %s second-level output "+
				"after the CSV delay is invalid: %v", name, kind, err)
		}
		cs.SecondLevelSweeps++
		if err := sweepAround(side.Signer, mk(), prev, -1, 0); err == nil {
			return violationf("%s: %s second-level output spendable "+
				"before the CSV delay", name, kind)
		}
		cs.NegativeControls++
		return nil
	}
	for i := range hr.OutgoingHTLCs {
		r := &hr.OutgoingHTLCs[i]
		if r.SignedTimeoutTx == nil {
			return cs, violationf("%s: outgoing HTLC resolution "+
				"without timeout tx on own commitment", name)
		}
		tx := r.SignedTimeoutTx
		op := tx.TxIn[0].PreviousOutPoint
		prev, err := outAt(commitTx, op)
		if err != nil {
			return cs, violationf("%s: timeout tx: %v", name, err)
		}
		if usedOuts[op.Index] {
			return cs, violationf("%s: two HTLC resolutions spend "+
				"commitment output %d", name, op.Index)
		}
		usedOuts[op.Index] = true
		if tx.LockTime != r.Expiry {
			return cs, violationf("%s: timeout tx lock time %d, HTLC "+
				"expiry %d", name, tx.LockTime, r.Expiry)
		}
		found := false
		for _, h := range e.NonDust {
			if h.From == x && h.Expiry == r.Expiry &&
				int64(uint64(h.Amt)/1000) == prev.Value {

				found = true
			}
		}
		if !found {
			return cs, violationf("%s: timeout tx (expiry %d, %d sat) "+
				"matches no offered HTLC of the commitment", name,
				r.Expiry, prev.Value)
		}
		if err := VerifyInput(tx, 0, prev); err != nil {
			return cs, violationf("%s: signed HTLC timeout tx (expiry "+
				"%d) is invalid: %v", name, r.Expiry, err)
		}
		cs.TimeoutTxs++
		// before expiry it must not be valid
		early := tx.Copy()
		early.LockTime = r.Expiry - 1
		if err := VerifyInput(early, 0, prev); err == nil {
			return cs, violationf("%s: HTLC timeout tx valid before "+
				"the expiry", name)
		}
		cs.NegativeControls++
		if err := secondLevel("timeout", tx, r.ClaimOutpoint,
			&r.SweepSignDesc, r.CsvDelay, false); err != nil {

			return cs, err
		}
	}
	for i := range hr.IncomingHTLCs {
		r := &hr.IncomingHTLCs[i]
		if r.SignedSuccessTx == nil {
			return cs, violationf("%s: incoming HTLC resolution "+
				"without success tx on own commitment", name)
		}
		tx := r.SignedSuccessTx.Copy()
		op := tx.TxIn[0].PreviousOutPoint
		prev, err := outAt(commitTx, op)
		if err != nil {
			return cs, violationf("%s: success tx: %v", name, err)
		}
		if usedOuts[op.Index] {
			return cs, violationf("%s: two HTLC resolutions spend "+
				"commitment output %d", name, op.Index)
		}
		usedOuts[op.Index] = true
		// Find the HTLC by trying the preimages of the candidates of
		// that value (the resolution does not name the hash).
		ok := false
		var lastErr error
		slot := 3
		if ct.IsTaproot() {
			slot = 2
		}
		for _, h := range e.NonDust {
			if h.From == x || int64(uint64(h.Amt)/1000) != prev.Value {
				continue
			}
			if len(tx.TxIn[0].Witness) <= slot {
				return cs, violationf("%s: success tx witness has "+
					"%d elements", name, len(tx.TxIn[0].Witness))
			}
			tx.TxIn[0].Witness[slot] = h.Preimage[:]
			if lastErr = VerifyInput(tx, 0, prev); lastErr == nil {
				ok = true
				break
			}
		}
		if !ok {
			return cs, violationf("%s: signed HTLC success tx is not "+
				"valid with the preimage: %v", name, lastErr)
		}
		cs.SuccessTxs++
		bad := tx.Copy()
		bad.TxIn[0].Witness[slot] = bytes.Repeat([]byte{7}, 32)
		if err := VerifyInput(bad, 0, prev); err == nil {
			return cs, violationf("%s: HTLC success tx valid with a "+
				"wrong preimage", name)
		}
		cs.NegativeControls++
		if err := secondLevel("success", tx, r.ClaimOutpoint,
			&r.SweepSignDesc, r.CsvDelay, true); err != nil {

			return cs, err
		}
	}

	if ar := res.AnchorResolution; ar != nil {
		prev, err := outAt(commitTx, ar.CommitAnchor)
		if err != nil {
			return cs, violationf("%s: anchor: %v", name, err)
		}
		var wt input.WitnessType = input.CommitmentAnchor
		if ct.IsTaproot() {
			wt = input.TaprootAnchorSweepSpend
		}
		inp := input.NewBaseInput(&ar.CommitAnchor, wt,
			&ar.AnchorSignDescriptor, 0)
		if err := sweepAround(side.Signer, inp, prev, 0, 0); err != nil {
			return cs, violationf("%s: own anchor spend invalid: %v",
				name, err)
		}
		cs.Anchors++
	} else if ct.HasAnchors() && (wantToLocal || len(e.NonDust) > 0) {
		return cs, violationf("%s: own commitment has an anchor but no "+
			"anchor resolution", name)
	}
	return cs, nil
}

// CheckRemoteClose: the peer's current (pending=false) or pending
// not-yet-revoked (pending=true) commitment confirms. x's resolutions must
// validly spend its to_remote output, claim received HTLCs with the preimage
// and time out offered ones at their expiry.
func (s *Sim) CheckRemoteClose(x int, pending bool) (CloseStats, error) {
	var cs CloseStats
	side := s.Sides[x]
	y := 1 - x
	name := sideName(x)
	st, err := side.FetchState()
	if err != nil {
		return cs, violationf("%s: fetch: %v", name, err)
	}
	var (
		commit channeldb.ChannelCommitment
		point  *btcec.PublicKey
		e      *Expected
		what   string
	)
	m := &s.M
	if pending {
		diff, err := st.RemoteCommitChainTip()
		if err != nil {
			return cs, nil
		}
		commit = diff.Commitment
		point = st.RemoteNextRevocation
		rec := m.Sigs[x][len(m.Sigs[x])-1]
		e = s.Expect(y, rec.Height, covOfRec(rec))
		what = "peer's pending commitment"
	} else {
		commit = st.RemoteCommitment
		point = st.RemoteCurrentRevocation
		acked := m.RevsDelivered[y]
		if acked == 0 {
			e = s.Expect(y, 0, [2]int{})
		} else {
			e = s.Expect(y, acked, covOfRec(m.Sigs[x][acked-1]))
		}
		what = "peer's current commitment"
	}
	if point == nil {
		return cs, violationf("%s: no commitment point stored for the %s",
			name, what)
	}
	commitTx := commit.CommitTx
	txh := commitTx.TxHash()
	spend := &chainntnfs.SpendDetail{
		SpentOutPoint:  &st.FundingOutpoint,
		SpenderTxHash:  &txh,
		SpendingTx:     commitTx,
		SpendingHeight: 1000,
	}
	sum, err := lnwallet.NewUnilateralCloseSummary(
		st, side.Signer, spend, commit, point,
		fn.Some[lnwallet.AuxLeafStore](&lnwallet.MockAuxLeafStore{}),
		fn.None[lnwallet.AuxContractResolver](),
	)
	if err != nil {
		return cs, violationf("%s: NewUnilateralCloseSummary(%s): %v",
			name, what, err)
	}
	ct := s.P.ChanType
	lease := s.leaseExpiryFor(x)

	// to_remote (our balance on their commitment), trimmed by THEIR dust
	// limit.
	ownSat := btcutil.Amount(uint64(e.Stored[x]) / 1000)
	wantOut := ownSat >= s.P.Dust[y]
	if (sum.CommitResolution != nil) != wantOut {
		return cs, violationf("%s: %s: to_remote resolution present=%v, "+
			"model balance %d sat, peer dust %d", name, what,
			sum.CommitResolution != nil, ownSat, s.P.Dust[y])
	}
	if cr := sum.CommitResolution; cr != nil {
		prev, err := outAt(commitTx, cr.SelfOutPoint)
		if err != nil {
			return cs, violationf("%s: %s to_remote: %v", name, what, err)
		}
		if btcutil.Amount(prev.Value) != ownSat {
			return cs, violationf("%s: %s: to_remote output %d sat, "+
				"balance %d sat", name, what, prev.Value, ownSat)
		}
		var wt input.WitnessType
		switch {
		case ct.IsTaprootFinal():
			wt = input.TaprootRemoteCommitSpendFinal
		case ct.IsTaproot():
			wt = input.TaprootRemoteCommitSpend
		case cr.MaturityDelay != 0 && lease > 0:
			wt = input.LeaseCommitmentToRemoteConfirmed
		case cr.MaturityDelay != 0:
			wt = input.CommitmentToRemoteConfirmed
		case cr.SelfOutputSignDesc.SingleTweak == nil:
			wt = input.CommitSpendNoDelayTweakless
		default:
			wt = input.CommitmentNoDelay
		}
		wantDelay := uint32(0)
		if ct.HasAnchors() {
			wantDelay = 1
		}
		if cr.MaturityDelay != wantDelay {
			return cs, violationf("%s: %s: to_remote maturity delay %d, "+
				"want %d", name, what, cr.MaturityDelay, wantDelay)
		}
		mk := func() input.Input {
			if lease > 0 {
				return input.NewCsvInputWithCltv(&cr.SelfOutPoint, wt,
					&cr.SelfOutputSignDesc, 0, cr.MaturityDelay, lease)
			}
			return input.NewCsvInput(&cr.SelfOutPoint, wt,
				&cr.SelfOutputSignDesc, 0, cr.MaturityDelay)
		}
		if err := sweepAround(side.Signer, mk(), prev, 0, 0); err != nil {
			return cs, violationf("%s: %s: to_remote sweep invalid "+
				"(%v): %v", name, what, wt, err)
		}
		cs.ToRemote++
	}

	var wantOffered, wantRecv int
	for _, h := range e.NonDust {
		if h.From == x {
			wantOffered++
		} else {
			wantRecv++
		}
	}
	hr := sum.HtlcResolutions
	if hr == nil {
		hr = &lnwallet.HtlcResolutions{}
	}
	if len(hr.OutgoingHTLCs) != wantOffered || len(hr.IncomingHTLCs) != wantRecv {
		return cs, violationf("%s: %s: %d outgoing / %d incoming HTLC "+
			"resolutions, the commitment has %d / %d HTLC outputs",
			name, what, len(hr.OutgoingHTLCs), len(hr.IncomingHTLCs),
			wantOffered, wantRecv)
	}
	used := map[uint32]bool{}
	for i := range hr.OutgoingHTLCs {
		r := &hr.OutgoingHTLCs[i]
		if r.SignedTimeoutTx != nil {
			return cs, violationf("%s: %s: second-level tx for a "+
				"remote commitment", name, what)
		}
		prev, err := outAt(commitTx, r.ClaimOutpoint)
		if err != nil {
			return cs, violationf("%s: %s offered HTLC: %v", name, what, err)
		}
		if used[r.ClaimOutpoint.Index] {
			return cs, violationf("%s: %s: output %d claimed twice",
				name, what, r.ClaimOutpoint.Index)
		}
		used[r.ClaimOutpoint.Index] = true
		found := false
		for _, h := range e.NonDust {
			if h.From == x && h.Expiry == r.Expiry &&
				int64(uint64(h.Amt)/1000) == prev.Value {

				found = true
			}
		}
		if !found {
			return cs, violationf("%s: %s: timeout resolution (expiry "+
				"%d, %d sat) matches no offered HTLC", name, what,
				r.Expiry, prev.Value)
		}
		var wt input.StandardWitnessType
		switch {
		case ct.IsTaprootFinal():
			wt = input.TaprootHtlcOfferedRemoteTimeoutFinal
		case ct.IsTaproot():
			wt = input.TaprootHtlcOfferedRemoteTimeout
		default:
			wt = input.HtlcOfferedRemoteTimeout
		}
		mk := func() input.Input {
			return input.NewCsvInputWithCltv(&r.ClaimOutpoint, wt,
				&r.SweepSignDesc, 0, r.CsvDelay, r.Expiry)
		}
		if err := sweepAround(side.Signer, mk(), prev, 0, 0); err != nil {
			return cs, violationf("%s: %s: timeout claim of offered "+
				"HTLC (expiry %d) invalid: %v", name, what, r.Expiry, err)
		}
		cs.DirectHtlcClaims++
		if err := sweepAround(side.Signer, mk(), prev, 0, -1); err == nil {
			return cs, violationf("%s: %s: offered HTLC claimable "+
				"before its expiry", name, what)
		}
		cs.NegativeControls++
	}
	for i := range hr.IncomingHTLCs {
		r := &hr.IncomingHTLCs[i]
		if r.SignedSuccessTx != nil {
			return cs, violationf("%s: %s: second-level tx for a "+
				"remote commitment", name, what)
		}
		prev, err := outAt(commitTx, r.ClaimOutpoint)
		if err != nil {
			return cs, violationf("%s: %s received HTLC: %v", name, what, err)
		}
		if used[r.ClaimOutpoint.Index] {
			return cs, violationf("%s: %s: output %d claimed twice",
				name, what, r.ClaimOutpoint.Index)
		}
		used[r.ClaimOutpoint.Index] = true
		ok := false
		var lastErr error
		for _, h := range e.NonDust {
			if h.From == x || int64(uint64(h.Amt)/1000) != prev.Value {
				continue
			}
			var inp input.Input
			pre := h.Preimage
			switch {
			case ct.IsTaprootFinal():
				v := input.MakeTaprootHtlcSucceedInputFinal(
					&r.ClaimOutpoint, &r.SweepSignDesc, pre[:], 0,
					r.CsvDelay)
				inp = &v
			case ct.IsTaproot():
				v := input.MakeTaprootHtlcSucceedInput(
					&r.ClaimOutpoint, &r.SweepSignDesc, pre[:], 0,
					r.CsvDelay)
				inp = &v
			default:
				v := input.MakeHtlcSucceedInput(
					&r.ClaimOutpoint, &r.SweepSignDesc, pre[:], 0,
					r.CsvDelay)
				inp = &v
			}
			if lastErr = sweepAround(side.Signer, inp, prev, 0, 0); lastErr == nil {
				ok = true
				break
			}
		}
		if !ok {
			return cs, violationf("%s: %s: preimage claim of received "+
				"HTLC invalid: %v", name, what, lastErr)
		}
		cs.DirectHtlcClaims++
	}
	if ar := sum.AnchorResolution; ar != nil {
		prev, err := outAt(commitTx, ar.CommitAnchor)
		if err != nil {
			return cs, violationf("%s: %s anchor: %v", name, what, err)
		}
		var wt input.WitnessType = input.CommitmentAnchor
		if ct.IsTaproot() {
			wt = input.TaprootAnchorSweepSpend
		}
		inp := input.NewBaseInput(&ar.CommitAnchor, wt,
			&ar.AnchorSignDescriptor, 0)
		if err := sweepAround(side.Signer, inp, prev, 0, 0); err != nil {
			return cs, violationf("%s: %s: anchor spend invalid: %v",
				name, what, err)
		}
		cs.Anchors++
	}
	return cs, nil
}

// SecondLevelTxs force closes side y (loaded afresh, the live channel is
// untouched) and returns its signed commitment together with the fully
// signed second-level HTLC transactions keyed by the commitment output they
// spend (success transactions carry the preimage). Used to let a "cheater"
// advance HTLCs of a commitment it later revokes.
func (s *Sim) SecondLevelTxs(y int) (*wire.MsgTx, map[uint32]*wire.MsgTx, error) {
	ch, err := s.Sides[y].LoadFresh()
	if err != nil {
		return nil, nil, err
	}
	if ch.State().LocalCommitment.CommitHeight == 0 {
		return nil, nil, nil
	}
	sum, err := ch.ForceClose()
	if err != nil {
		return nil, nil, err
	}
	out := map[uint32]*wire.MsgTx{}
	res, err := sum.ContractResolutions.UnwrapOrErr(fmt.Errorf("no resolutions"))
	if err != nil || res.HtlcResolutions == nil {
		return sum.CloseTx, out, nil
	}
	for i := range res.HtlcResolutions.OutgoingHTLCs {
		tx := res.HtlcResolutions.OutgoingHTLCs[i].SignedTimeoutTx
		if tx != nil {
			out[tx.TxIn[0].PreviousOutPoint.Index] = tx
		}
	}
	slot := 3
	if s.P.ChanType.IsTaproot() {
		slot = 2
	}
	for i := range res.HtlcResolutions.IncomingHTLCs {
		r := &res.HtlcResolutions.IncomingHTLCs[i]
		if r.SignedSuccessTx == nil {
			continue
		}
		tx := r.SignedSuccessTx.Copy()
		idx := tx.TxIn[0].PreviousOutPoint.Index
		prev := sum.CloseTx.TxOut[idx]
		for z := 0; z < 2; z++ {
			for _, u := range s.M.U[z] {
				if u.Kind != UAdd || int64(uint64(u.H.Amt)/1000) != prev.Value {
					continue
				}
				tx.TxIn[0].Witness[slot] = u.H.Preimage[:]
				if VerifyInput(tx, 0, prev) == nil {
					out[idx] = tx.Copy()
				}
			}
		}
	}
	return sum.CloseTx, out, nil
}
