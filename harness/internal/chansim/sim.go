//go:build verif

package chansim

import (
	"bytes"
	"context"
	"crypto/sha256"
	"errors"
	"fmt"
	"net"
	"os"
	"strings"

	"github.com/btcsuite/btcd/btcec/v2"
	"github.com/btcsuite/btcd/btcutil/v2"
	"github.com/btcsuite/btcd/btcutil/v2/txsort"
	"github.com/btcsuite/btcd/chainhash/v2"
	"github.com/btcsuite/btcd/wire/v2"
	"github.com/btcsuite/btcwallet/walletdb"
	"github.com/lightningnetwork/lnd/channeldb"
	"github.com/lightningnetwork/lnd/chanstate"
	"github.com/lightningnetwork/lnd/fn/v2"
	"github.com/lightningnetwork/lnd/input"
	"github.com/lightningnetwork/lnd/keychain"
	"github.com/lightningnetwork/lnd/kvdb"
	"github.com/lightningnetwork/lnd/lnwallet"
	"github.com/lightningnetwork/lnd/lnwallet/chainfee"
	"github.com/lightningnetwork/lnd/lnwire"
	"github.com/lightningnetwork/lnd/shachain"
)

// AnchorSize is the value of one anchor output.
const AnchorSize = btcutil.Amount(330)

// Side is one party of the simulated channel.
type Side struct {
	Ix     int // 0 = A, 1 = B
	Name   string
	Keys   []*btcec.PrivateKey
	Signer *input.MockSigner
	Pool   *lnwallet.SigPool
	DB     *channeldb.DB
	Fault  *FaultDB
	Dir    string
	Chan   *lnwallet.LightningChannel

	// Producer is the side's own revocation producer (from the seed).
	Producer *shachain.RevocationProducer

	// Stale is a second handle of the channel record, fetched when the
	// channel was created and never refreshed: what lnd's funding manager
	// holds (completeChan) while the link works on its own handle.
	Stale *chanstate.OpenChannel
}

// UpdKind is the kind of a channel update.
type UpdKind int

const (
	UAdd UpdKind = iota
	USettle
	UFail
	UMalformed
	UFee
)

func (k UpdKind) String() string {
	return [...]string{"add", "settle", "fail", "malformed", "fee"}[k]
}

// HTLC is the ledger's record of one offered HTLC.
type HTLC struct {
	From     int // offering side
	ID       uint64
	Amt      lnwire.MilliSatoshi
	Hash     [32]byte
	Preimage [32]byte
	Expiry   uint32
	// Msg is the update_add_htlc as sent.
	Msg *lnwire.UpdateAddHTLC
	// Seq is unique over the case (ids are re-used after a reload drops
	// unsigned adds).
	Seq int
}

// Update is one entry of a side's list of sent updates.
type Update struct {
	Kind UpdKind
	H    *HTLC // the HTLC added, or the one being removed
	Fee  chainfee.SatPerKWeight
	Msg  lnwire.Message
}

// CommitRec is the model's record of one signature: the commitment for the
// peer of Signer at Height covering Own of the signer's updates and Their of
// the peer's updates.
type CommitRec struct {
	Signer int
	Height uint64
	Own    int
	Their  int
	// PrevOwn is Own of the signer's previous signature (the commit diff
	// carries updates PrevOwn..Own).
	PrevOwn int
	Msg     *lnwire.CommitSig
}

// Model is the reference bookkeeping, written from BOLT-2's description of
// the update/commit/revoke dance; it never reads lnd's logs.
type Model struct {
	// U[x] is the list of updates x has sent (truncated to the signed
	// prefix on reload).
	U [2][]Update
	// Recvd[y] is how many of the peer's updates y has received.
	Recvd [2]int
	// SignedOwn[x] = len(U[x]) at x's last signature.
	SignedOwn [2]int
	// SignedTheir[x] = number of peer updates covered by x's last
	// signature.
	SignedTheir [2]int
	// Tail[x] is the (own, their) coverage of x's current local
	// commitment (x's own updates, peer's updates).
	TailOwn   [2]int
	TailTheir [2]int
	// Sigs[x] are x's signatures by height (index h-1).
	Sigs [2][]*CommitRec
	// SigsSent/RevsSent count calls; *Delivered count deliveries.
	RevsSent      [2]uint64 // == current local height of x
	RevsDelivered [2]uint64 // x's revocations received by the peer
	SigsDelivered [2]uint64 // x's signatures received (and revoked for)
	// Locked[x] is how many of x's updates are irrevocably committed on
	// both sides and known to be so by the peer (revocation delivered).
	Locked [2]int
	// LastWasRevoke[x]: x's most recent of {sign, revoke} was a revoke.
	LastWasRevoke [2]bool
	// RevMsgs[x][h] is the revocation x handed out for height h.
	RevMsgs [2]map[uint64]*lnwire.RevokeAndAck
}

// Sim is a simulated channel between two honest peers.
type Sim struct {
	T     TB
	P     Params
	Sides [2]*Side
	// Q[x] is the in-order queue of messages from x to its peer.
	Q [2][]lnwire.Message
	M Model

	ChanID lnwire.ChannelID
	seq    int

	// InitBal are the balances before fees (msat), by side.
	InitBal [2]lnwire.MilliSatoshi
	// Settled[x] is the total msat x has irrevocably received... see
	// ledger helpers.

	// FwdPkgs[x] are the forwarding packages handed to x, one per
	// revocation received, in order.
	FwdPkgs [2][]*channeldb.FwdPkg

	// Trace is the printable action history.
	Trace []string

	// Hooks for property specific oracles.
	OnRevoke func(side int, height uint64, msg *lnwire.RevokeAndAck, retransmit bool)
	// OnBeforeRevoke is called right before side revokes its commitment
	// at height (the commitment is still the current one on disk).
	OnBeforeRevoke func(side int, height uint64)
	// OnRevoked is called just before side receives the peer's
	// revocation: revokedTx is the peer's commitment being revoked.
	OnRevoked func(side int, height uint64, revokedTx *wire.MsgTx)

	// Aborted is set when an honest schedule hit a documented
	// constraint race at receive time; the case ends there.
	Aborted string

	Labels map[string]bool

	closed bool
}

// ErrViolation marks oracle failures (as opposed to harness problems).
type ErrViolation struct{ Msg string }

func (e *ErrViolation) Error() string { return e.Msg }

func violationf(format string, args ...any) error {
	return &ErrViolation{Msg: fmt.Sprintf(format, args...)}
}

func (s *Sim) label(l string) {
	if s.Labels == nil {
		s.Labels = map[string]bool{}
	}
	s.Labels[l] = true
}

func (s *Sim) tracef(format string, args ...any) {
	s.Trace = append(s.Trace, fmt.Sprintf(format, args...))
}

func sideName(i int) string { return [...]string{"A", "B"}[i] }

func (s *Sim) mkKeys(side int) []*btcec.PrivateKey {
	var keys []*btcec.PrivateKey
	for i := 0; i < 5; i++ {
		h := s.P.hashN("key"+sideName(side), i)
		k, _ := btcec.PrivKeyFromBytes(h[:])
		keys = append(keys, k)
	}
	return keys
}

func chanCfg(p Params, side int, keys []*btcec.PrivateKey) channeldb.ChannelConfig {
	// ChanReserve in x's config is the reserve x must keep; MaxPending
	// etc. are the limits x imposes on the *peer's* offered HTLCs per
	// lnd's convention (LocalChanCfg holds constraints we must obey? No:
	// lnd stores in LocalChanCfg the parameters *we* announced).
	return channeldb.ChannelConfig{
		ChannelStateBounds: channeldb.ChannelStateBounds{
			MaxPendingAmount: lnwire.NewMSatFromSatoshis(p.Capacity),
			ChanReserve:      p.Reserve[side],
			MinHTLC:          lnwire.MilliSatoshi(p.MinHTLC[side]),
			MaxAcceptedHtlcs: p.MaxHtlcs[side],
		},
		CommitmentParams: channeldb.CommitmentParams{
			DustLimit: p.Dust[side],
			CsvDelay:  p.Csv[side],
		},
		MultiSigKey:         keychain.KeyDescriptor{PubKey: keys[0].PubKey()},
		RevocationBasePoint: keychain.KeyDescriptor{PubKey: keys[1].PubKey()},
		PaymentBasePoint:    keychain.KeyDescriptor{PubKey: keys[2].PubKey()},
		DelayBasePoint:      keychain.KeyDescriptor{PubKey: keys[3].PubKey()},
		HtlcBasePoint:       keychain.KeyDescriptor{PubKey: keys[4].PubKey()},
	}
}

func openBolt(dir string) (walletdb.DB, error) {
	return kvdb.GetBoltBackend(&kvdb.BoltBackendConfig{
		DBPath:            dir,
		DBFileName:        "channel.db",
		NoFreelistSync:    true,
		AutoCompact:       false,
		AutoCompactMinAge: kvdb.DefaultBoltAutoCompactMinAge,
		DBTimeout:         kvdb.DefaultDBTimeout,
	})
}

func openDB(dir string, noAmt bool) (*channeldb.DB, *FaultDB, error) {
	backend, err := openBackend(dir)
	if err != nil {
		return nil, nil, err
	}
	fdb := &FaultDB{DB: backend}
	db, err := channeldb.CreateWithBackend(
		fdb, channeldb.OptionNoRevLogAmtData(noAmt),
		channeldb.OptionStoreFinalHtlcResolutions(true),
	)
	if err != nil {
		return nil, nil, err
	}
	return db, fdb, nil
}

func chanOpts() []lnwallet.ChannelOpt {
	return []lnwallet.ChannelOpt{
		lnwallet.WithLeafStore(&lnwallet.MockAuxLeafStore{}),
	}
}

// New builds a channel pair "as if the funding flow just completed".
func New(t TB, p Params) *Sim {
	t.Helper()
	s := &Sim{T: t, P: p}
	s.label("kvdb_" + Backend)
	s.M.RevMsgs[0] = map[uint64]*lnwire.RevokeAndAck{}
	s.M.RevMsgs[1] = map[uint64]*lnwire.RevokeAndAck{}

	fh := p.hashN("funding", 0)
	prevOut := &wire.OutPoint{
		Hash:  chainhash.Hash(fh),
		Index: uint32(fh[0]) % 4,
	}
	s.ChanID = lnwire.NewChanIDFromOutPoint(*prevOut)
	fundingTxIn := wire.NewTxIn(prevOut, nil, nil)

	var (
		cfgs      [2]channeldb.ChannelConfig
		producers [2]*shachain.RevocationProducer
		points    [2]*btcec.PublicKey
	)
	for i := 0; i < 2; i++ {
		keys := s.mkKeys(i)
		cfgs[i] = chanCfg(p, i, keys)
		root := p.hashN("shachain"+sideName(i), 0)
		producers[i] = shachain.NewRevocationProducer(chainhash.Hash(root))
		first, err := producers[i].AtIndex(0)
		if err != nil {
			t.Fatalf("producer: %v", err)
		}
		points[i] = input.ComputeCommitmentPoint(first[:])
		s.Sides[i] = &Side{
			Ix: i, Name: sideName(i), Keys: keys,
			Signer:   input.NewMockSigner(keys, nil),
			Producer: producers[i],
		}
	}

	op := p.Opener()
	commitFee := p.FeePerKw.FeeForWeight(lnwallet.CommitWeight(p.ChanType))
	var anchors btcutil.Amount
	if p.ChanType.HasAnchors() {
		anchors = 2 * AnchorSize
	}
	var bal [2]btcutil.Amount
	bal[op] = p.Funded[op] - commitFee - anchors
	bal[1-op] = p.Funded[1-op]
	if bal[op] < 0 {
		t.Fatalf("generator bug: opener cannot pay initial fee")
	}
	s.InitBal[0] = lnwire.NewMSatFromSatoshis(p.Funded[0])
	s.InitBal[1] = lnwire.NewMSatFromSatoshis(p.Funded[1])

	txA, txB, err := lnwallet.CreateCommitmentTxns(
		bal[0], bal[1], &cfgs[0], &cfgs[1], points[0], points[1],
		*fundingTxIn, p.ChanType, p.InitiatorA, p.Thaw,
	)
	if err != nil {
		t.Fatalf("CreateCommitmentTxns: %v", err)
	}
	// The funding flow sorts both transactions (BIP 69).
	txsort.InPlaceSort(txA)
	txsort.InPlaceSort(txB)
	obf := lnwallet.DeriveStateHintObfuscator(
		cfgs[op].PaymentBasePoint.PubKey,
		cfgs[1-op].PaymentBasePoint.PubKey,
	)
	for _, tx := range []*wire.MsgTx{txA, txB} {
		if err := lnwallet.SetStateNumHint(tx, 0, obf); err != nil {
			t.Fatalf("SetStateNumHint: %v", err)
		}
	}
	txs := [2]*wire.MsgTx{txA, txB}

	fakeSig := bytes.Repeat([]byte{0x30}, 1)
	_ = fakeSig
	scid := lnwire.NewShortChanIDFromInt(uint64(fh[1])<<40 | uint64(fh[2])<<16 | 1)

	var tapRoot fn.Option[chainhash.Hash]
	if p.ChanType.HasTapscriptRoot() {
		tapRoot = fn.Some(chainhash.Hash(p.hashN("tapscriptroot", 0)))
	}

	for i := 0; i < 2; i++ {
		side := s.Sides[i]
		dir, err := os.MkdirTemp("", "chansim")
		if err != nil {
			t.Fatalf("tempdir: %v", err)
		}
		side.Dir = dir
		side.DB, side.Fault, err = openDB(dir, p.NoAmtData)
		if err != nil {
			t.Fatalf("open db: %v", err)
		}
		j := 1 - i
		local := channeldb.ChannelCommitment{
			CommitHeight:  0,
			LocalBalance:  lnwire.NewMSatFromSatoshis(bal[i]),
			RemoteBalance: lnwire.NewMSatFromSatoshis(bal[j]),
			CommitFee:     commitFee,
			FeePerKw:      btcutil.Amount(p.FeePerKw),
			CommitTx:      txs[i],
			CommitSig:     testSigBytes,
		}
		remote := local
		remote.CommitTx = txs[j]

		state := &chanstate.OpenChannel{
			LocalChanCfg:            cfgs[i],
			RemoteChanCfg:           cfgs[j],
			IdentityPub:             side.Keys[0].PubKey(),
			FundingOutpoint:         *prevOut,
			ShortChannelID:          scid,
			ChanType:                p.ChanType,
			IsInitiator:             op == i,
			Capacity:                p.Capacity,
			RemoteCurrentRevocation: points[j],
			RevocationProducer:      producers[i],
			RevocationStore:         shachain.NewRevocationStore(),
			LocalCommitment:         local,
			RemoteCommitment:        remote,
			Db:                      side.DB.ChannelStateDB(),
			ThawHeight:              p.Thaw,
			TapscriptRoot:           tapRoot,
		}
		if op == i {
			state.FundingTxn = testFundingTx(prevOut)
		}
		side.Pool = lnwallet.NewSigPool(1, side.Signer)
		side.Chan, err = lnwallet.NewLightningChannel(
			side.Signer, state, side.Pool, chanOpts()...,
		)
		if err != nil {
			t.Fatalf("NewLightningChannel: %v", err)
		}
		if err := side.Pool.Start(); err != nil {
			t.Fatalf("pool start: %v", err)
		}
		addr := &net.TCPAddr{IP: net.ParseIP("127.0.0.1"), Port: 18555 + i}
		if err := state.SyncPending(addr, 101); err != nil {
			t.Fatalf("SyncPending: %v", err)
		}
	}

	// channel_ready: exchange nonces (taproot) and next revocation points.
	a, b := s.Sides[0].Chan, s.Sides[1].Chan
	if p.ChanType.IsTaproot() {
		na, err := a.GenMusigNonces()
		if err != nil {
			t.Fatalf("nonces: %v", err)
		}
		nb, err := b.GenMusigNonces()
		if err != nil {
			t.Fatalf("nonces: %v", err)
		}
		if err := a.InitRemoteMusigNonces(nb); err != nil {
			t.Fatalf("init nonces: %v", err)
		}
		if err := b.InitRemoteMusigNonces(na); err != nil {
			t.Fatalf("init nonces: %v", err)
		}
	}
	for i := 0; i < 2; i++ {
		k, err := s.Sides[i].Chan.NextRevocationKey()
		if err != nil {
			t.Fatalf("next rev key: %v", err)
		}
		if err := s.Sides[1-i].Chan.InitNextRevocation(k); err != nil {
			t.Fatalf("InitNextRevocation: %v", err)
		}
	}
	for i := 0; i < 2; i++ {
		st, err := s.Sides[i].FetchState()
		if err != nil {
			t.Fatalf("fetch stale handle: %v", err)
		}
		s.Sides[i].Stale = st
	}
	if p.ZeroConf {
		s.label("zero_conf_channel")
	}
	if p.RetryTx {
		s.label("db_transactions_retried")
		for i := 0; i < 2; i++ {
			s.Sides[i].Fault.Retry.Store(true)
		}
	}

	return s
}

// Close releases DBs, pools and temp dirs. Safe to call twice.
func (s *Sim) Close() {
	if s.closed {
		return
	}
	s.closed = true
	for _, side := range s.Sides {
		if side == nil {
			continue
		}
		if side.Pool != nil {
			_ = side.Pool.Stop()
		}
		if side.DB != nil {
			_ = side.DB.Close()
		}
		if side.Dir != "" {
			_ = os.RemoveAll(side.Dir)
		}
	}
}

// FetchState reads the side's channel afresh from its database.
func (side *Side) FetchState() (*chanstate.OpenChannel, error) {
	chans, err := side.DB.ChannelStateDB().FetchOpenChannels(
		side.Keys[0].PubKey(),
	)
	if err != nil {
		return nil, err
	}
	if len(chans) != 1 {
		return nil, fmt.Errorf("%d channels in db", len(chans))
	}
	return chans[0], nil
}

// LoadFresh builds a new LightningChannel from the database without
// replacing the live one.
func (side *Side) LoadFresh() (*lnwallet.LightningChannel, error) {
	st, err := side.FetchState()
	if err != nil {
		return nil, err
	}
	return lnwallet.NewLightningChannel(
		side.Signer, st, side.Pool, chanOpts()...,
	)
}

// IsConstraintErr reports whether err is one of the documented channel
// constraint outcomes (not an agreement failure).
func IsConstraintErr(err error) bool {
	if err == nil {
		return false
	}
	for _, e := range []error{
		lnwallet.ErrBelowChanReserve, lnwallet.ErrMaxHTLCNumber,
		lnwallet.ErrMaxPendingAmount, lnwallet.ErrBelowMinHTLC,
		lnwallet.ErrInvalidHTLCAmt, lnwallet.ErrFeeBufferNotInitiator,
	} {
		if errors.Is(err, e) {
			return true
		}
	}
	msg := err.Error()
	for _, sub := range []string{
		"commitment transaction dips peer below chan reserve",
		"dips peer below",
		"insufficient", "fee buffer",
	} {
		if strings.Contains(msg, sub) {
			return true
		}
	}
	return false
}

var ctxb = context.Background()

func preimageFor(p Params, seq int) ([32]byte, [32]byte) {
	pre := p.hashN("preimage", seq)
	return pre, sha256.Sum256(pre[:])
}

// testSigBytes is a syntactically valid DER signature used for the height-0
// commitments (like lnd's own fixtures; never verified).
var testSigBytes = []byte{
	0x30, 0x44, 0x02, 0x20, 0x4e, 0x45, 0xe1, 0x69,
	0x32, 0xb8, 0xaf, 0x51, 0x49, 0x61, 0xa1, 0xd3,
	0xa1, 0xa2, 0x5f, 0xdf, 0x3f, 0x4f, 0x77, 0x32,
	0xe9, 0xd6, 0x24, 0xc6, 0xc6, 0x15, 0x48, 0xab,
	0x5f, 0xb8, 0xcd, 0x41, 0x02, 0x20, 0x18, 0x15,
	0x22, 0xec, 0x8e, 0xca, 0x07, 0xde, 0x48, 0x60,
	0xa4, 0xac, 0xdd, 0x12, 0x90, 0x9d, 0x83, 0x1c,
	0xc5, 0x6c, 0xbb, 0xac, 0x46, 0x22, 0x08, 0x22,
	0x21, 0xa8, 0x76, 0x8d, 0x1d, 0x09,
}

func testFundingTx(prev *wire.OutPoint) *wire.MsgTx {
	tx := wire.NewMsgTx(2)
	tx.AddTxIn(wire.NewTxIn(&wire.OutPoint{Index: 0xffffffff}, []byte{0x51}, nil))
	tx.AddTxOut(&wire.TxOut{Value: 1, PkScript: []byte{0x51}})
	return tx
}
