//go:build verif

package chansim

import (
	"errors"
	"sync/atomic"

	"github.com/btcsuite/btcwallet/walletdb"
	"github.com/lightningnetwork/lnd/kvdb"
)

// ErrInjected is returned by a FaultDB for every write while it is armed.
var ErrInjected = errors.New("injected database write failure")

// FaultDB wraps a kvdb backend and can be armed to fail every write
// transaction (the process "cannot make anything durable any more"). It does
// not implement walletdb.BatchDB, so kvdb.Batch degrades to a plain Update
// (also avoiding bbolt's 10 ms batch timer).
type FaultDB struct {
	walletdb.DB
	armed atomic.Bool
	// Failed counts write transactions that were refused.
	Failed atomic.Int64

	// Retry makes every write transaction run its closure twice: the
	// first execution is rolled back, the reset callback is called and the
	// closure runs again - what lnd's SQL-backed and etcd kvdb backends do
	// when a transaction hits a serialisation conflict (sqlbase
	// executeTransaction; kvdb.Update documents that the closure may be
	// retried and that reset must bring the caller's variables back).
	// State that a closure accumulates outside the transaction without
	// resetting it is committed twice (seeded change C02e).
	Retry atomic.Bool
	// Retried counts transactions whose closure was executed twice.
	Retried atomic.Int64
}

var errRetryProbe = errors.New("chansim: first execution of a retried transaction")

var _ kvdb.Backend = (*FaultDB)(nil)

// Arm makes every subsequent write transaction fail.
func (f *FaultDB) Arm() { f.armed.Store(true) }

// Disarm lets writes through again.
func (f *FaultDB) Disarm() { f.armed.Store(false) }

func (f *FaultDB) Update(fn func(tx walletdb.ReadWriteTx) error, reset func()) error {
	if f.armed.Load() {
		f.Failed.Add(1)
		return ErrInjected
	}
	if f.Retry.Load() {
		err := f.DB.Update(func(tx walletdb.ReadWriteTx) error {
			if err := fn(tx); err != nil {
				return err
			}

			return errRetryProbe
		}, reset)
		if !errors.Is(err, errRetryProbe) {
			// The closure itself failed: nothing was committed,
			// report it as the backend would.
			return err
		}
		reset()
		f.Retried.Add(1)
	}
	return f.DB.Update(fn, reset)
}

func (f *FaultDB) BeginReadWriteTx() (walletdb.ReadWriteTx, error) {
	if f.armed.Load() {
		f.Failed.Add(1)
		return nil, ErrInjected
	}
	return f.DB.BeginReadWriteTx()
}
