//go:build verif

package chansim

import (
	"bytes"
	"fmt"
	"sort"

	"github.com/btcsuite/btcd/btcutil/v2"
	"github.com/btcsuite/btcd/wire/v2"
	"github.com/lightningnetwork/lnd/channeldb"
	"github.com/lightningnetwork/lnd/input"
	"github.com/lightningnetwork/lnd/lntypes"
	"github.com/lightningnetwork/lnd/lnwallet"
	"github.com/lightningnetwork/lnd/lnwallet/chainfee"
	"github.com/lightningnetwork/lnd/lnwire"
)

// Expected is the model's prediction of one stored commitment.
type Expected struct {
	Owner    int
	Height   uint64
	FeePerKw chainfee.SatPerKWeight
	// Pre are both balances before the commitment fee (anchors already
	// taken from the opener at funding time).
	Pre [2]lnwire.MilliSatoshi
	// Stored are the balances as lnd stores them (fee taken from the
	// opener; zero if it cannot pay).
	Stored    [2]lnwire.MilliSatoshi
	CommitFee btcutil.Amount
	Live      []*HTLC
	NonDust   []*HTLC
	// OpenerShort is set when the opener could not pay the full fee.
	OpenerShort bool
}

// anchorsMsat is what the opener set aside for anchors at funding time.
func (s *Sim) anchorsMsat() lnwire.MilliSatoshi {
	if s.P.ChanType.HasAnchors() {
		return lnwire.NewMSatFromSatoshis(2 * AnchorSize)
	}
	return 0
}

// secondLevelFee is the fee of the second-level transaction an HTLC needs
// on owner's commitment: success for HTLCs the owner receives, timeout for
// those it offered. Zero for zero-fee-HTLC and taproot channels. Written
// from BOLT-3, with lnd's weight constants as data.
func (s *Sim) secondLevelFee(rate chainfee.SatPerKWeight, incoming bool) btcutil.Amount {
	ct := s.P.ChanType
	if ct.ZeroHtlcTxFee() || ct.IsTaproot() {
		return 0
	}
	var w lntypes.WeightUnit
	switch {
	case incoming && ct.HasAnchors():
		w = input.HtlcSuccessWeightConfirmed
	case incoming:
		w = input.HtlcSuccessWeight
	case ct.HasAnchors():
		w = input.HtlcTimeoutWeightConfirmed
	default:
		w = input.HtlcTimeoutWeight
	}
	return btcutil.Amount(int64(rate) * int64(w) / 1000)
}

// IsDustOn reports whether h is trimmed on owner's commitment at rate.
func (s *Sim) IsDustOn(owner int, h *HTLC, rate chainfee.SatPerKWeight) bool {
	incoming := h.From != owner
	amt := btcutil.Amount(uint64(h.Amt) / 1000)
	return amt-s.secondLevelFee(rate, incoming) < s.P.Dust[owner]
}

// DustThreshold returns the smallest sat amount that is not dust on
// owner's commitment for an HTLC offered by from.
func (s *Sim) DustThreshold(owner, from int, rate chainfee.SatPerKWeight) btcutil.Amount {
	return s.P.Dust[owner] + s.secondLevelFee(rate, from != owner)
}

// Expect predicts owner's commitment that covers cov[z] of side z's updates.
func (s *Sim) Expect(owner int, height uint64, cov [2]int) *Expected {
	e := &Expected{Owner: owner, Height: height, FeePerKw: s.P.FeePerKw}
	op := s.P.Opener()
	e.Pre = s.InitBal
	e.Pre[op] -= s.anchorsMsat()

	removed := map[*HTLC]UpdKind{}
	var adds []*HTLC
	for z := 0; z < 2; z++ {
		for _, u := range s.M.U[z][:cov[z]] {
			switch u.Kind {
			case UAdd:
				adds = append(adds, u.H)
			case UFee:
				e.FeePerKw = u.Fee
			default:
				removed[u.H] = u.Kind
			}
		}
	}
	for _, h := range adds {
		e.Pre[h.From] -= h.Amt
		if k, ok := removed[h]; ok {
			if k == USettle {
				e.Pre[1-h.From] += h.Amt
			} else {
				e.Pre[h.From] += h.Amt
			}
			continue
		}
		e.Live = append(e.Live, h)
		if !s.IsDustOn(owner, h, e.FeePerKw) {
			e.NonDust = append(e.NonDust, h)
		}
	}
	w := int64(lnwallet.CommitWeight(s.P.ChanType)) +
		int64(input.HTLCWeight)*int64(len(e.NonDust))
	e.CommitFee = btcutil.Amount(int64(e.FeePerKw) * w / 1000)
	e.Stored = e.Pre
	if e.CommitFee > btcutil.Amount(uint64(e.Pre[op])/1000) {
		e.Stored[op] = 0
		e.OpenerShort = true
	} else {
		e.Stored[op] -= lnwire.NewMSatFromSatoshis(e.CommitFee)
	}
	return e
}

type htlcKey struct {
	Incoming bool
	ID       uint64
	Amt      lnwire.MilliSatoshi
	Hash     [32]byte
	Expiry   uint32
}

// CheckCommit compares a stored commitment (from owner's point of view:
// local = owner) with the model's prediction, and checks conservation and
// the no-overdraw rule on the transaction.
func (s *Sim) CheckCommit(what string, c *channeldb.ChannelCommitment,
	e *Expected, ownerIsLocal bool) error {

	o := e.Owner
	// Balances from the storing side's perspective.
	storer := o
	if !ownerIsLocal {
		storer = 1 - o
	}
	if c.CommitHeight != e.Height {
		return violationf("%s: height %d, model %d", what,
			c.CommitHeight, e.Height)
	}
	got := [2]lnwire.MilliSatoshi{}
	got[storer] = c.LocalBalance
	got[1-storer] = c.RemoteBalance

	// Conservation to the msat.
	var sum lnwire.MilliSatoshi
	for _, h := range c.Htlcs {
		sum += h.Amt
	}
	total := got[0] + got[1] + sum +
		lnwire.NewMSatFromSatoshis(c.CommitFee) + s.anchorsMsat()
	capMsat := lnwire.NewMSatFromSatoshis(s.P.Capacity)
	if e.OpenerShort {
		if total > capMsat {
			return violationf("%s: value created: balances+htlcs+"+
				"fee+anchors=%d > capacity %d", what, total, capMsat)
		}
	} else if total != capMsat {
		return violationf("%s: conservation broken: local=%d remote=%d "+
			"htlcs=%d fee=%d anchors=%d sum=%d capacity=%d", what,
			c.LocalBalance, c.RemoteBalance, sum, c.CommitFee,
			s.anchorsMsat(), total, capMsat)
	}

	// No overdraw on the transaction itself.
	var outs int64
	for _, o := range c.CommitTx.TxOut {
		outs += o.Value
	}
	if btcutil.Amount(outs)+c.CommitFee > s.P.Capacity {
		return violationf("%s: outputs %d + fee %d exceed capacity %d",
			what, outs, c.CommitFee, s.P.Capacity)
	}

	// Model agreement: fee rate, fee, balances, HTLC set.
	if chainfee.SatPerKWeight(c.FeePerKw) != e.FeePerKw {
		return violationf("%s: fee rate %d, model %d", what, c.FeePerKw,
			e.FeePerKw)
	}
	if c.CommitFee != e.CommitFee {
		return violationf("%s: commit fee %d, model %d (%d non-dust "+
			"HTLCs of %d)", what, c.CommitFee, e.CommitFee,
			len(e.NonDust), len(e.Live))
	}
	if got != e.Stored {
		return violationf("%s: balances A=%d B=%d, model A=%d B=%d "+
			"(balance moved by something other than an HTLC "+
			"amount or the opener's fee)", what, got[0], got[1],
			e.Stored[0], e.Stored[1])
	}
	gotSet := map[htlcKey]int{}
	for _, h := range c.Htlcs {
		inc := h.Incoming
		if !ownerIsLocal {
			// stored by the peer: its "incoming" is owner's outgoing
			inc = !inc
		}
		gotSet[htlcKey{inc, h.HtlcIndex, h.Amt, h.RHash, h.RefundTimeout}]++
	}
	wantSet := map[htlcKey]int{}
	for _, h := range e.Live {
		wantSet[htlcKey{h.From != o, h.ID, h.Amt, h.Hash, h.Expiry}]++
	}
	if len(gotSet) != len(wantSet) {
		return violationf("%s: %d HTLCs, model %d", what, len(c.Htlcs),
			len(e.Live))
	}
	for k, n := range wantSet {
		if gotSet[k] != n {
			return violationf("%s: HTLC id=%d incoming=%v amt=%d "+
				"missing or altered", what, k.ID, k.Incoming, k.Amt)
		}
	}

	// Every stored HTLC must still be the update_add_htlc that was sent:
	// onion blob, blinding point and custom records included.
	for i := range c.Htlcs {
		h := &c.Htlcs[i]
		inc := h.Incoming
		if !ownerIsLocal {
			inc = !inc
		}
		for _, l := range e.Live {
			if (l.From != o) != inc || l.ID != h.HtlcIndex || l.Msg == nil {
				continue
			}
			re := &lnwire.UpdateAddHTLC{
				ChanID: l.Msg.ChanID, ID: h.HtlcIndex, Amount: h.Amt,
				PaymentHash: h.RHash, Expiry: h.RefundTimeout,
				OnionBlob: h.OnionBlob, BlindingPoint: h.BlindingPoint,
				CustomRecords: h.CustomRecords,
			}
			if err := sameUpdate(re, l.Msg); err != nil {
				return violationf("%s: stored HTLC %d differs from "+
					"the update_add_htlc that was sent: %v", what,
					h.HtlcIndex, err)
			}
		}
	}

	// Output values of the transaction: to_local, to_remote (each only
	// if >= the owner's dust limit), non-dust HTLCs, anchors.
	var want []int64
	for z := 0; z < 2; z++ {
		v := int64(uint64(e.Stored[z]) / 1000)
		if btcutil.Amount(v) >= s.P.Dust[o] {
			want = append(want, v)
		}
	}
	nBal := len(want)
	for _, h := range e.NonDust {
		want = append(want, int64(uint64(h.Amt)/1000))
	}
	if s.P.ChanType.HasAnchors() {
		ownOut := btcutil.Amount(uint64(e.Stored[o])/1000) >= s.P.Dust[o]
		peerOut := btcutil.Amount(uint64(e.Stored[1-o])/1000) >= s.P.Dust[o]
		if ownOut || len(e.NonDust) > 0 {
			want = append(want, int64(AnchorSize))
		}
		if peerOut || len(e.NonDust) > 0 {
			want = append(want, int64(AnchorSize))
		}
	}
	_ = nBal
	var gotVals []int64
	for _, o := range c.CommitTx.TxOut {
		gotVals = append(gotVals, o.Value)
	}
	sort.Slice(want, func(i, j int) bool { return want[i] < want[j] })
	sort.Slice(gotVals, func(i, j int) bool { return gotVals[i] < gotVals[j] })
	if fmt.Sprint(want) != fmt.Sprint(gotVals) {
		return violationf("%s: tx output values %v, model %v", what,
			gotVals, want)
	}
	// BOLT-3 output ordering: value, then script, then (for identical
	// offered HTLC outputs) CLTV expiry; recorded output indexes must point
	// at an output of the HTLC's value, one each.
	outsTx := c.CommitTx.TxOut
	for i := 1; i < len(outsTx); i++ {
		a, b := outsTx[i-1], outsTx[i]
		if a.Value > b.Value || (a.Value == b.Value &&
			bytes.Compare(a.PkScript, b.PkScript) > 0) {

			return violationf("%s: outputs %d,%d not in BIP69 order",
				what, i-1, i)
		}
	}
	used := map[int32]bool{}
	nonDust := map[htlcKey]bool{}
	for _, h := range e.NonDust {
		nonDust[htlcKey{h.From != o, h.ID, h.Amt, h.Hash, h.Expiry}] = true
	}
	for i := range c.Htlcs {
		h := &c.Htlcs[i]
		inc := h.Incoming
		if !ownerIsLocal {
			inc = !inc
		}
		isNonDust := nonDust[htlcKey{inc, h.HtlcIndex, h.Amt, h.RHash, h.RefundTimeout}]
		if !isNonDust {
			if h.OutputIndex >= 0 {
				return violationf("%s: dust HTLC %d has output "+
					"index %d", what, h.HtlcIndex, h.OutputIndex)
			}
			continue
		}
		if h.OutputIndex < 0 || int(h.OutputIndex) >= len(outsTx) ||
			used[h.OutputIndex] ||
			outsTx[h.OutputIndex].Value != int64(uint64(h.Amt)/1000) {

			return violationf("%s: HTLC %d (amt %d) recorded output "+
				"index %d is wrong or shared", what, h.HtlcIndex,
				h.Amt, h.OutputIndex)
		}
		used[h.OutputIndex] = true
	}
	for i := range c.Htlcs {
		for j := range c.Htlcs {
			h1, h2 := &c.Htlcs[i], &c.Htlcs[j]
			if h1.OutputIndex < 0 || h2.OutputIndex < 0 || i == j {
				continue
			}
			o1, o2 := outsTx[h1.OutputIndex], outsTx[h2.OutputIndex]
			if o1.Value == o2.Value && bytes.Equal(o1.PkScript, o2.PkScript) &&
				h1.RefundTimeout < h2.RefundTimeout &&
				h1.OutputIndex > h2.OutputIndex {

				return violationf("%s: identical HTLC outputs not "+
					"ordered by CLTV (BOLT-3): expiry %d at index "+
					"%d, expiry %d at index %d", what,
					h1.RefundTimeout, h1.OutputIndex,
					h2.RefundTimeout, h2.OutputIndex)
			}
		}
	}
	return nil
}

// covLocal is the coverage of x's current local commitment.
func (s *Sim) covLocal(x int) [2]int {
	var cov [2]int
	cov[x] = s.M.TailOwn[x]
	cov[1-x] = s.M.TailTheir[x]
	return cov
}

// covOfRec is the coverage of the commitment created by signature rec.
func covOfRec(rec *CommitRec) [2]int {
	var cov [2]int
	cov[rec.Signer] = rec.Own
	cov[1-rec.Signer] = rec.Their
	return cov
}

func txid(tx *wire.MsgTx) string {
	return tx.TxHash().String()
}

// CheckAll runs the per-step C01 oracles on both sides: model agreement,
// conservation, no-overdraw on every persisted commitment, and byte
// identity of the two parties' views of the same commitment.
func (s *Sim) CheckAll() error {
	m := &s.M
	type view struct {
		tx     *wire.MsgTx
		height uint64
	}
	var own [2]view
	for x := 0; x < 2; x++ {
		st := s.Sides[x].Chan.State()
		lc := st.LocalCommitment
		e := s.Expect(x, m.RevsSent[x], s.covLocal(x))
		if err := s.CheckCommit(sideName(x)+".LocalCommitment", &lc, e, true); err != nil {
			return err
		}
		// classification for evidence
		if e.OpenerShort {
			s.label("opener_cannot_pay_full_fee")
		}
		if len(e.Live) != len(e.NonDust) {
			s.label("dust_htlc_on_commitment")
		}
		for _, h := range e.Live {
			if s.IsDustOn(0, h, e.FeePerKw) != s.IsDustOn(1, h, e.FeePerKw) {
				s.label("dust_straddle")
			}
		}
		if len(e.Live) >= 6 {
			s.label("six_or_more_live_htlcs")
		}
		own[x] = view{lc.CommitTx, lc.CommitHeight}
	}
	for x := 0; x < 2; x++ {
		y := 1 - x
		st := s.Sides[x].Chan.State()
		rc := st.RemoteCommitment
		// x's view of y's commitment: the last signature of x that y
		// acknowledged (revocation delivered to x).
		acked := m.RevsDelivered[y]
		var e *Expected
		if acked == 0 {
			e = s.Expect(y, 0, [2]int{})
		} else {
			e = s.Expect(y, acked, covOfRec(m.Sigs[x][acked-1]))
		}
		if err := s.CheckCommit(sideName(x)+".RemoteCommitment", &rc, e, false); err != nil {
			return err
		}
		if rc.CommitHeight == own[y].height &&
			txid(rc.CommitTx) != txid(own[y].tx) {

			return violationf("height %d: %s's view of %s's "+
				"commitment differs from %s's own (txid %s vs %s)",
				rc.CommitHeight, sideName(x), sideName(y),
				sideName(y), txid(rc.CommitTx), txid(own[y].tx))
		}

		// Pending (signed, not yet revoked-for) remote commitment.
		diff, err := st.RemoteCommitChainTip()
		hasPending := uint64(len(m.Sigs[x])) > acked
		switch {
		case err == nil && !hasPending:
			return violationf("%s holds a pending remote commitment "+
				"h=%d the model does not know", sideName(x),
				diff.Commitment.CommitHeight)
		case err != nil && hasPending:
			return violationf("%s lost its pending remote "+
				"commitment: %v", sideName(x), err)
		case err == nil:
			rec := m.Sigs[x][len(m.Sigs[x])-1]
			e := s.Expect(y, rec.Height, covOfRec(rec))
			c := diff.Commitment
			if err := s.CheckCommit(sideName(x)+".PendingRemoteCommit", &c, e, false); err != nil {
				return err
			}
			if c.CommitHeight == own[y].height &&
				txid(c.CommitTx) != txid(own[y].tx) {

				return violationf("height %d: %s's pending view "+
					"of %s's commitment differs from %s's own",
					c.CommitHeight, sideName(x), sideName(y),
					sideName(y))
			}
		}
	}
	return nil
}

// CheckQuiescent runs the mirror-image and ledger oracle when nothing is in
// flight.
func (s *Sim) CheckQuiescent() error {
	if !s.Quiescent() {
		return fmt.Errorf("model: not quiescent")
	}
	a := s.Sides[0].Chan.State()
	b := s.Sides[1].Chan.State()
	pairs := []struct {
		name string
		p, q *channeldb.ChannelCommitment
	}{
		{"A.local/B.remote", &a.LocalCommitment, &b.RemoteCommitment},
		{"A.remote/B.local", &a.RemoteCommitment, &b.LocalCommitment},
	}
	for _, pr := range pairs {
		p, q := pr.p, pr.q
		if p.LocalBalance != q.RemoteBalance || p.RemoteBalance != q.LocalBalance ||
			p.CommitFee != q.CommitFee || p.FeePerKw != q.FeePerKw ||
			p.CommitHeight != q.CommitHeight || len(p.Htlcs) != len(q.Htlcs) {

			return violationf("quiescent but %s are not mirror "+
				"images: (%d,%d,fee %d,h %d,%d htlcs) vs (%d,%d,"+
				"fee %d,h %d,%d htlcs)", pr.name, p.LocalBalance,
				p.RemoteBalance, p.CommitFee, p.CommitHeight,
				len(p.Htlcs), q.LocalBalance, q.RemoteBalance,
				q.CommitFee, q.CommitHeight, len(q.Htlcs))
		}
		if txid(p.CommitTx) != txid(q.CommitTx) {
			return violationf("quiescent but %s transactions differ",
				pr.name)
		}
	}
	// All four commitments cover everything: same balances, same live
	// HTLC set (HTLCs awaiting resolution may remain).
	full := [2]int{len(s.M.U[0]), len(s.M.U[1])}
	for x := 0; x < 2; x++ {
		if s.covLocal(x) != full {
			return fmt.Errorf("model: quiescent but %s's commitment "+
				"covers %v of %v", sideName(x), s.covLocal(x), full)
		}
	}
	if a.LocalCommitment.LocalBalance != a.RemoteCommitment.LocalBalance ||
		a.LocalCommitment.RemoteBalance != a.RemoteCommitment.RemoteBalance {

		// Fees may differ between the two commitments only through
		// dust trimming (different dust limits); compare pre-fee.
		ea := s.Expect(0, 0, full)
		eb := s.Expect(1, 0, full)
		if ea.Pre != eb.Pre {
			return fmt.Errorf("model: pre-fee balances differ")
		}
	}
	return nil
}

// LedgerSummary returns, per side, the net msat moved by settled HTLCs
// according to the harness's own record of what it sent (fully covered
// updates only).
func (s *Sim) LedgerSummary() (settledTo [2]lnwire.MilliSatoshi, nSettled, nFailed int) {
	for y := 0; y < 2; y++ {
		for _, u := range s.M.U[y] {
			switch u.Kind {
			case USettle:
				settledTo[y] += u.H.Amt
				nSettled++
			case UFail, UMalformed:
				nFailed++
			}
		}
	}
	return
}

// SameTxNoWitness compares two transactions ignoring witnesses.
func SameTxNoWitness(a, b *wire.MsgTx) bool {
	var ba, bb bytes.Buffer
	_ = a.SerializeNoWitness(&ba)
	_ = b.SerializeNoWitness(&bb)
	return bytes.Equal(ba.Bytes(), bb.Bytes())
}
