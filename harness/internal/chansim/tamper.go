//go:build verif

package chansim

import (
	"github.com/lightningnetwork/lnd/lnwallet"
	"github.com/lightningnetwork/lnd/lnwire"
)

// TamperedSigEpilogue is a terminal negative control (added after seeded
// change C05f): after a finished, quiescent run one side offers an HTLC that is
// non-dust on both commitments and signs; the peer receives the update and is
// then shown the commitment_signed with ONE htlc signature replaced by a
// well-formed wrong one (the genuine signature with its last byte changed). It
// must refuse: a node that accepts it holds a "latest commitment" whose
// second-level transaction for that HTLC can never confirm. The channel is not
// used afterwards (lnd fails the link on such a message; a refused
// ReceiveNewCommitment does not leave the object reusable). Taproot channels are
// skipped (partial signatures, nonces consumed by the attempt). No rapid draw:
// the offering side and the signature index are derived from the drawn seed.
//
// done=false: the control could not be staged (constraint refused the add, the
// HTLC is dust on the receiver's commitment, run aborted).
func (s *Sim) TamperedSigEpilogue() (done bool, err error) {
	if s.P.ChanType.IsTaproot() || s.Aborted != "" || !s.Quiescent() {
		return false, nil
	}
	x := int(s.P.Seed[5]) % 2
	y := 1 - x

	// Above dust + second-level fee on either side at any generated fee
	// rate (dust limits <= 3000 sat, fee rate <= 50000 sat/kw, 706 wu).
	amt := lnwire.NewMSatFromSatoshis(45_000)
	ok, err := s.DoAdd(x, amt, 600, nil)
	if err != nil || !ok {
		return false, err
	}
	if err := s.DoSign(x); err != nil || s.Aborted != "" {
		return false, err
	}
	// the update itself
	if err := s.DoDeliver(x, false); err != nil || s.Aborted != "" {
		return false, err
	}
	if len(s.Q[x]) != 1 {
		return false, violationf("harness: %d messages queued after "+
			"add+sign", len(s.Q[x]))
	}
	sig, isSig := s.Q[x][0].(*lnwire.CommitSig)
	if !isSig {
		return false, violationf("harness: %T queued, want commit_sig",
			s.Q[x][0])
	}
	s.Q[x] = nil
	if len(sig.HtlcSigs) == 0 {
		s.label("tamper_control_htlc_is_dust")
		return false, nil
	}
	k := int(s.P.Seed[4]) % len(sig.HtlcSigs)
	bad := append([]lnwire.Sig(nil), sig.HtlcSigs...)
	raw := append([]byte(nil), bad[k].RawBytes()...)
	raw[len(raw)-1] ^= 0x01
	flipped, err := lnwire.NewSigFromWireECDSA(raw)
	if err != nil {
		return false, err
	}
	bad[k] = flipped
	auxBlob, err := sig.CustomRecords.Serialize()
	if err != nil {
		return false, err
	}
	terr := s.Sides[y].Chan.ReceiveNewCommitment(&lnwallet.CommitSigs{
		CommitSig: sig.CommitSig, HtlcSigs: bad,
		PartialSig: sig.PartialSig, AuxSigBlob: auxBlob,
	})
	if terr == nil {
		return true, violationf("%s accepted a commitment_signed whose "+
			"htlc signature #%d of %d is not the peer's signature for "+
			"that HTLC: its latest commitment now has a second-level "+
			"transaction that can never confirm", sideName(y), k, len(bad))
	}
	s.tracef("%s refused tampered htlc sig #%d: %v", sideName(y), k, terr)
	s.label("tampered_htlc_sig_refused")

	return true, nil
}
