//go:build verif

package chansim

import (
	"fmt"

	"github.com/lightningnetwork/lnd/lnwallet/chainfee"
	"github.com/lightningnetwork/lnd/lnwire"
	"pgregory.net/rapid"
)

// RunOpts configures the generated schedule.
type RunOpts struct {
	MinSteps, MaxSteps int
	// Cuts enables disconnect/reload/reestablish actions.
	Cuts bool
	// CutWeight is the relative weight of the cut action (default 2).
	CutWeight int
	// Faults enables the write-failure actions: the database of one side
	// stops accepting writes during a sign / revoke / receive-revocation
	// call, the call must fail without handing anything out, and the
	// connection is then cut (both sides reload).
	Faults bool
	// NoFees disables update_fee.
	NoFees bool
	// NoAdmin disables the channel-record writes made through a second,
	// stale handle on zero-conf channels (DoAdmin).
	NoAdmin bool
	// AfterStep runs after every action (both sides consistent).
	AfterStep func(s *Sim, action string) error
	// AfterCut runs right after a reestablish exchange.
	AfterCut func(s *Sim, rep *RetransmitReport) error
	// SkipFinalDrain leaves the channel in whatever state the schedule
	// reached.
	SkipFinalDrain bool
}

// CurrentFeeRate is the fee rate of the most recent update_fee sent, or the
// initial rate.
func (s *Sim) CurrentFeeRate() chainfee.SatPerKWeight {
	r := s.P.FeePerKw
	for _, u := range s.M.U[s.P.Opener()] {
		if u.Kind == UFee {
			r = u.Fee
		}
	}
	return r
}

// DrawAmount draws an HTLC amount for an add by x, biased towards the dust
// thresholds of both commitments at the current fee rate.
func (s *Sim) DrawAmount(t *rapid.T, x int) lnwire.MilliSatoshi {
	rate := s.CurrentFeeRate()
	kind := rapid.IntRange(0, 9).Draw(t, "amtKind")
	capMsat := int64(s.P.Capacity) * 1000
	switch {
	case kind <= 3:
		// around a dust threshold
		owner := rapid.IntRange(0, 1).Draw(t, "dustOwner")
		thr := int64(s.DustThreshold(owner, x, rate)) * 1000
		dSat := int64(rapid.IntRange(-2, 2).Draw(t, "dSat")) * 1000
		dMsat := int64(rapid.IntRange(-999, 999).Draw(t, "dMsat"))
		v := thr + dSat + dMsat
		if v < 1 {
			v = 1
		}
		return lnwire.MilliSatoshi(v)
	case kind == 4:
		return lnwire.MilliSatoshi(rapid.Int64Range(1, 2000).Draw(t, "tiny"))
	case kind == 5:
		// near what the sender can spend
		av := int64(s.Sides[x].Chan.AvailableBalance())
		d := rapid.Int64Range(-3000, 3000).Draw(t, "nearAvail")
		v := av + d
		if v < 1 {
			v = 1
		}
		return lnwire.MilliSatoshi(v)
	case kind == 6:
		return lnwire.MilliSatoshi(rapid.Int64Range(1, capMsat).Draw(t, "anyAmt"))
	case kind == 7:
		// between the two parties' dust limits: once settled to a side
		// that owns nothing else, its balance is an output on one
		// party's commitment and trimmed on the other's.
		lo, hi := int64(s.P.Dust[0]), int64(s.P.Dust[1])
		if lo > hi {
			lo, hi = hi, lo
		}
		sat := rapid.Int64Range(lo, hi).Draw(t, "betweenDust")
		return lnwire.MilliSatoshi(sat*1000 + int64(rapid.IntRange(0, 999).Draw(t, "bdMsat")))
	default:
		hi := capMsat / 20
		if hi < 10_000_000 {
			hi = 10_000_000
		}
		return lnwire.MilliSatoshi(rapid.Int64Range(1_000_000, hi).Draw(t, "midAmt"))
	}
}

// Run drives a generated schedule. It returns the first violation.
func (s *Sim) Run(t *rapid.T, o RunOpts) error {
	if o.CutWeight == 0 {
		o.CutWeight = 2
	}
	n := rapid.IntRange(o.MinSteps, o.MaxSteps).Draw(t, "steps")
	after := func(a string) error {
		if s.Aborted != "" {
			return nil
		}
		if err := s.CheckAll(); err != nil {
			return fmt.Errorf("after %q: %w", a, err)
		}
		if o.AfterStep != nil {
			if err := o.AfterStep(s, a); err != nil {
				return fmt.Errorf("after %q: %w", a, err)
			}
		}
		return nil
	}
	if err := after("init"); err != nil {
		return err
	}

	for i := 0; i < n && s.Aborted == ""; i++ {
		// Collect enabled actions with weights.
		type act struct {
			name string
			w    int
		}
		var acts []act
		for x := 0; x < 2; x++ {
			nm := sideName(x)
			acts = append(acts, act{"add" + nm, 4})
			if len(s.Resolvable(x)) > 0 {
				acts = append(acts, act{"resolve" + nm, 4})
			}
			if s.CanSign(x) {
				acts = append(acts, act{"sign" + nm, 5})
			}
			if s.CanDeliver(x) {
				acts = append(acts, act{"deliver" + nm, 8})
			}
		}
		if !o.NoFees {
			// Fee updates are rare in general but frequent while the
			// opener's last signature (which covered a fee update) is
			// still unacknowledged: two fee updates on different
			// commitments around a reload is a historically buggy
			// cell.
			w := 1
			op := s.P.Opener()
			if s.Unacked(op) && len(s.M.Sigs[op]) > 0 {
				rec := s.M.Sigs[op][len(s.M.Sigs[op])-1]
				for _, u := range s.M.U[op][rec.PrevOwn:rec.Own] {
					if u.Kind == UFee {
						w = 6
						s.label("fee_update_in_flight")
					}
				}
			}
			acts = append(acts, act{"fee", w})
		}
		acts = append(acts, act{"drain", 1})
		if !o.NoAdmin {
			acts = append(acts, act{"adminA", 1}, act{"adminB", 1})
		}
		if o.Cuts {
			acts = append(acts, act{"cut", o.CutWeight})
			for x := 0; x < 2; x++ {
				if s.CanDeliver(x) {
					if _, ok := s.Q[x][0].(*lnwire.CommitSig); ok {
						acts = append(acts, act{"cutMidSig" + sideName(x), o.CutWeight})
					}
				}
			}
		}
		if o.Faults && o.Cuts {
			for x := 0; x < 2; x++ {
				nm := sideName(x)
				if s.CanSign(x) {
					acts = append(acts, act{"faultSign" + nm, 1})
				}
				if s.CanDeliver(x) {
					switch s.Q[x][0].(type) {
					case *lnwire.CommitSig:
						acts = append(acts, act{"faultRevoke" + nm, 1})
					case *lnwire.RevokeAndAck:
						acts = append(acts, act{"faultRecvRev" + nm, 1})
					}
				}
			}
		}
		total := 0
		for _, a := range acts {
			total += a.w
		}
		pick := rapid.IntRange(0, total-1).Draw(t, "action")
		var name string
		for _, a := range acts {
			if pick < a.w {
				name = a.name
				break
			}
			pick -= a.w
		}

		var err error
		switch name {
		case "addA", "addB":
			x := int(name[3] - 'A')
			live := s.LiveOffered(x)
			var dup *HTLC
			if len(live) > 0 && rapid.IntRange(0, 3).Draw(t, "dup") == 0 {
				dup = live[rapid.IntRange(0, len(live)-1).Draw(t, "dupOf")]
				s.label("duplicate_htlc")
			}
			var amt lnwire.MilliSatoshi
			var exp uint32
			if dup == nil {
				amt = s.DrawAmount(t, x)
				exp = uint32(rapid.IntRange(500, 520).Draw(t, "expiry"))
			}
			var dupExp uint32
			if dup != nil && rapid.Bool().Draw(t, "dupOtherExpiry") {
				dupExp = uint32(rapid.IntRange(500, 520).Draw(t, "dupExpiry"))
				s.label("duplicate_htlc_other_expiry")
			}
			_, err = s.DoAddExp(x, amt, exp, dup, dupExp)
		case "resolveA", "resolveB":
			y := int(name[7] - 'A')
			rs := s.Resolvable(y)
			h := rs[rapid.IntRange(0, len(rs)-1).Draw(t, "which")]
			kind := []UpdKind{USettle, USettle, UFail, UMalformed}[rapid.IntRange(0, 3).Draw(t, "resKind")]
			err = s.DoResolve(y, h, kind)
		case "signA", "signB":
			err = s.DoSign(int(name[4] - 'A'))
		case "deliverA", "deliverB":
			err = s.DoDeliver(int(name[7]-'A'), false)
		case "fee":
			var rate int64
			if rapid.Bool().Draw(t, "feeNear") {
				rate = int64(s.CurrentFeeRate()) + int64(rapid.IntRange(-200, 200).Draw(t, "feeDelta"))
			} else {
				rate = rapid.Int64Range(253, 60000).Draw(t, "feeRate")
			}
			if rate < 253 {
				rate = 253
			}
			_, err = s.DoFee(chainfee.SatPerKWeight(rate))
		case "adminA", "adminB":
			lo := 2
			if s.P.ZeroConf {
				lo = 0
			}
			err = s.DoAdmin(int(name[5]-'A'),
				rapid.IntRange(lo, 3).Draw(t, "adminKind"),
				uint32(rapid.IntRange(100, 700).Draw(t, "adminVal")))
		case "drain":
			err = s.Drain(func() error { return after("drain-step") })
			if err == nil && s.Aborted == "" {
				err = s.CheckQuiescent()
			}
		case "faultSignA", "faultSignB", "faultRevokeA", "faultRevokeB",
			"faultRecvRevA", "faultRecvRevB":

			x := int(name[len(name)-1] - 'A')
			err = s.DoFault(name[:len(name)-1], x)
			if err == nil && s.Aborted == "" {
				var co CutOpts
				co.StripDLP[0] = rapid.Bool().Draw(t, "stripDlpA")
				co.StripDLP[1] = rapid.Bool().Draw(t, "stripDlpB")
				var rep *RetransmitReport
				rep, err = s.DoCut(co)
				if err == nil && s.Aborted == "" && o.AfterCut != nil {
					err = o.AfterCut(s, rep)
				}
			}
		case "cut", "cutMidSigA", "cutMidSigB":
			if name != "cut" {
				x := int(name[9] - 'A')
				if err = s.DoDeliver(x, true); err != nil {
					break
				}
				s.label("cut_between_sig_and_revoke")
			}
			if s.Aborted != "" {
				break
			}
			var co CutOpts
			co.StripDLP[0] = rapid.Bool().Draw(t, "stripDlpA")
			co.StripDLP[1] = rapid.Bool().Draw(t, "stripDlpB")
			var rep *RetransmitReport
			rep, err = s.DoCut(co)
			if err == nil && s.Aborted == "" && o.AfterCut != nil {
				err = o.AfterCut(s, rep)
			}
		}
		if err != nil {
			return fmt.Errorf("step %d %s: %w", i, name, err)
		}
		if len(s.Q[0]) > 0 && len(s.Q[1]) > 0 {
			s.label("both_queues_nonempty")
		}
		if err := after(name); err != nil {
			return fmt.Errorf("step %d: %w", i, err)
		}
	}
	if o.SkipFinalDrain || s.Aborted != "" {
		return nil
	}
	if err := s.Drain(func() error { return after("final-drain") }); err != nil {
		return err
	}
	if s.Aborted != "" {
		return nil
	}
	return s.CheckQuiescent()
}
