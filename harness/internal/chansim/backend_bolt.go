//go:build verif && !kvdb_sqlite

package chansim

import "github.com/btcsuite/btcwallet/walletdb"

// Backend names the key-value backend the channel databases run on.
const Backend = "bolt"

func openBackend(dir string) (walletdb.DB, error) { return openBolt(dir) }
