//go:build verif

package chansim

import (
	"bytes"

	"fmt"
	"github.com/btcsuite/btcd/btcec/v2"
	"sort"

	"github.com/lightningnetwork/lnd/channeldb"
	"github.com/lightningnetwork/lnd/chanstate"
	"github.com/lightningnetwork/lnd/lnwallet"
	"github.com/lightningnetwork/lnd/lnwire"
)

// DumpCommit renders every persisted field of a commitment canonically.
func DumpCommit(c *channeldb.ChannelCommitment) string {
	var b bytes.Buffer
	fmt.Fprintf(&b, "h=%d lli=%d lhi=%d rli=%d rhi=%d lb=%d rb=%d fee=%d "+
		"rate=%d sig=%x blob=%v tx=", c.CommitHeight, c.LocalLogIndex,
		c.LocalHtlcIndex, c.RemoteLogIndex, c.RemoteHtlcIndex,
		c.LocalBalance, c.RemoteBalance, c.CommitFee, c.FeePerKw,
		c.CommitSig, c.CustomBlob)
	if c.CommitTx != nil {
		var tb bytes.Buffer
		_ = c.CommitTx.Serialize(&tb)
		fmt.Fprintf(&b, "%x", tb.Bytes())
	}
	hs := append([]channeldb.HTLC{}, c.Htlcs...)
	sort.Slice(hs, func(i, j int) bool {
		if hs[i].Incoming != hs[j].Incoming {
			return hs[j].Incoming
		}
		return hs[i].HtlcIndex < hs[j].HtlcIndex
	})
	for _, h := range hs {
		// ExtraData is a serialisation detail (after a decode it holds
		// the raw TLV stream the blinding point and custom records were
		// parsed from); the parsed values are compared instead.
		var bp []byte
		h.BlindingPoint.WhenSomeV(func(k *btcec.PublicKey) {
			bp = k.SerializeCompressed()
		})
		var crKeys []uint64
		for k := range h.CustomRecords {
			crKeys = append(crKeys, k)
		}
		sort.Slice(crKeys, func(i, j int) bool { return crKeys[i] < crKeys[j] })
		cr := ""
		for _, k := range crKeys {
			cr += fmt.Sprintf("%d=%x,", k, h.CustomRecords[k])
		}
		fmt.Fprintf(&b, "\n  htlc in=%v id=%d log=%d amt=%d exp=%d out=%d "+
			"hash=%x sig=%x onion=%x blinding=%x custom=%s", h.Incoming,
			h.HtlcIndex, h.LogIndex, h.Amt, h.RefundTimeout, h.OutputIndex,
			h.RHash[:6], h.Signature, h.OnionBlob[:4], bp, cr)
	}
	return b.String()
}

// DumpState renders the persisted fields of an OpenChannel that the
// state machine mutates.
func DumpState(c *chanstate.OpenChannel) string {
	var b bytes.Buffer
	// LastWasRevoke is deliberately absent: lnd only updates it on disk
	// (it is read by ProcessChanSyncMsg on a freshly loaded channel); the
	// disk value is compared with the model in CheckReload.
	fmt.Fprintf(&b, "status=%v sent=%d recv=%d\n",
		c.ChanStatus(), c.TotalMSatSent, c.TotalMSatReceived)
	pk := func(name string, k interface{ SerializeCompressed() []byte }) {
		fmt.Fprintf(&b, "%s=%x\n", name, k.SerializeCompressed())
	}
	if c.RemoteCurrentRevocation != nil {
		pk("remoteCurrentRevocation", c.RemoteCurrentRevocation)
	}
	if c.RemoteNextRevocation != nil {
		pk("remoteNextRevocation", c.RemoteNextRevocation)
	} else {
		b.WriteString("remoteNextRevocation=nil\n")
	}
	var sb bytes.Buffer
	_ = c.RevocationStore.Encode(&sb)
	fmt.Fprintf(&b, "revStore=%x\n", sb.Bytes())
	sb.Reset()
	_ = c.RevocationProducer.Encode(&sb)
	fmt.Fprintf(&b, "revProducer=%x\n", sb.Bytes())
	fmt.Fprintf(&b, "local: %s\nremote: %s\n", DumpCommit(&c.LocalCommitment),
		DumpCommit(&c.RemoteCommitment))
	return b.String()
}

type logKey struct {
	Kind string
	ID   uint64
}

func updKey(u Update) logKey {
	switch u.Kind {
	case UAdd:
		return logKey{"add", u.H.ID}
	case UFee:
		return logKey{"fee", uint64(u.Fee)}
	case UMalformed:
		return logKey{"malformed", u.H.ID}
	case USettle:
		return logKey{"settle", u.H.ID}
	default:
		return logKey{"fail", u.H.ID}
	}
}

func entryKey(e lnwallet.VerifLogEntry, own bool) logKey {
	switch e.Type {
	case "add", "noopadd":
		return logKey{"add", e.HtlcIndex}
	case "fee":
		return logKey{"fee", e.AmountMsat / 1000}
	case "malformed":
		if !own {
			return logKey{"fail", e.ParentIndex}
		}
		return logKey{"malformed", e.ParentIndex}
	default:
		return logKey{e.Type, e.ParentIndex}
	}
}

// CheckReload performs the C02 oracles for side x at this instant: the
// channel is loaded afresh from disk (the live object stays in use) and
//  1. loading succeeds,
//  2. the fetched OpenChannel equals the in-memory one on every persisted
//     field the state machine mutates,
//  3. the persisted commitments equal the model (through CheckAll on the
//     live state plus 2),
//  4. the persisted local commitment is not one whose secret was released,
//  5. the restored update logs contain every update that a signature
//     covers and that a commitment still needs, nothing that no signature
//     covers, and the HTLC counters equal the signed counts,
//  6. persisted forwarding packages equal the ones handed out.
func (s *Sim) CheckReload(x int) error {
	side := s.Sides[x]
	m := &s.M
	y := 1 - x
	name := sideName(x)

	fetched, err := side.FetchState()
	if err != nil {
		return violationf("%s: channel cannot be fetched: %v", name, err)
	}
	live := side.Chan.State()
	if d1, d2 := DumpState(live), DumpState(fetched); d1 != d2 {
		return violationf("%s: persisted channel differs from the "+
			"in-memory state:\n--- memory\n%s\n--- disk\n%s", name, d1, d2)
	}
	if (len(m.Sigs[x]) > 0 || m.RevsSent[x] > 0) &&
		fetched.LastWasRevoke != m.LastWasRevoke[x] {

		return violationf("%s: persisted LastWasRevoke=%v but the last "+
			"of its sign/revoke calls was revoke=%v", name,
			fetched.LastWasRevoke, m.LastWasRevoke[x])
	}
	if fetched.LocalCommitment.CommitHeight != m.RevsSent[x] {
		return violationf("%s: persisted local commitment height %d "+
			"but %d revocations were handed out (would broadcast a "+
			"revoked state or skipped one)", name,
			fetched.LocalCommitment.CommitHeight, m.RevsSent[x])
	}

	fresh, err := lnwallet.NewLightningChannel(
		side.Signer, fetched, side.Pool, chanOpts()...,
	)
	if err != nil {
		return violationf("%s: reload failed: %v", name, err)
	}
	snap := fresh.VerifSnapshot()

	// HTLC counters.
	countAdds := func(us []Update) uint64 {
		var n uint64
		for _, u := range us {
			if u.Kind == UAdd {
				n++
			}
		}
		return n
	}
	if w := countAdds(m.U[x][:m.SignedOwn[x]]); snap.LocalHtlcCounter != w {
		return violationf("%s reloaded: next local HTLC id %d, but %d "+
			"own adds are covered by a signature", name,
			snap.LocalHtlcCounter, w)
	}
	if w := countAdds(m.U[y][:m.TailTheir[x]]); snap.RemoteHtlcCounter != w {
		return violationf("%s reloaded: next remote HTLC id %d, but %d "+
			"peer adds are covered by the acked commitment", name,
			snap.RemoteHtlcCounter, w)
	}

	// Chains: local chain holds exactly the tail, remote chain tail (+
	// pending tip).
	if len(snap.LocalChain) != 1 || snap.LocalChain[0].Height != m.RevsSent[x] {
		return violationf("%s reloaded: local chain %+v", name, snap.LocalChain)
	}
	wantRemote := 1
	if s.Unacked(x) {
		wantRemote = 2
	}
	if len(snap.RemoteChain) != wantRemote {
		return violationf("%s reloaded: %d remote commitments, want %d",
			name, len(snap.RemoteChain), wantRemote)
	}

	// Log contents.
	type need struct {
		key  logKey
		what string
	}
	var musts []need
	allowedOwn := map[logKey]int{}
	lastOwnFee := -1
	for i, u := range m.U[x][:m.SignedOwn[x]] {
		if u.Kind == UFee && i >= m.TailOwn[x] {
			lastOwnFee = i
		}
	}
	for i, u := range m.U[x][:m.SignedOwn[x]] {
		allowedOwn[updKey(u)]++
		// A fee update superseded by a later one has no effect on any
		// commitment and may be dropped/coalesced; only the last one
		// must survive.
		if u.Kind == UFee && i != lastOwnFee {
			continue
		}
		if u.Kind != UAdd && i >= m.TailOwn[x] {
			musts = append(musts, need{updKey(u), "signed own update " +
				"not yet on the own commitment"})
		}
	}
	allowedTheir := map[logKey]int{}
	lastTheirFee := -1
	for j, u := range m.U[y][:m.TailTheir[x]] {
		if u.Kind == UFee && j >= m.SignedTheir[x] {
			lastTheirFee = j
		}
	}
	for j, u := range m.U[y][:m.TailTheir[x]] {
		k := updKey(u)
		if k.Kind == "malformed" {
			k.Kind = "fail"
		}
		allowedTheir[k]++
		if u.Kind == UFee && j != lastTheirFee {
			continue
		}
		if u.Kind != UAdd && j >= m.SignedTheir[x] {
			musts = append(musts, need{logKey{"their-" + k.Kind, k.ID},
				"acked peer update not yet signed for"})
		}
	}
	gotOwn := map[logKey]int{}
	for _, e := range snap.LocalLog {
		k := entryKey(e, true)
		gotOwn[k]++
		if allowedOwn[k] == 0 {
			return violationf("%s reloaded: local log holds %v "+
				"which no signature covers", name, k)
		}
		if gotOwn[k] > allowedOwn[k] {
			return violationf("%s reloaded: local log holds %v %d "+
				"times", name, k, gotOwn[k])
		}
	}
	gotTheir := map[logKey]int{}
	for _, e := range snap.RemoteLog {
		k := entryKey(e, false)
		gotTheir[k]++
		if allowedTheir[k] == 0 {
			return violationf("%s reloaded: remote log holds %v "+
				"which the acked commitment does not cover", name, k)
		}
		if gotTheir[k] > allowedTheir[k] {
			return violationf("%s reloaded: remote log holds %v %d "+
				"times", name, k, gotTheir[k])
		}
	}
	for _, n := range musts {
		k := n.key
		if len(k.Kind) > 6 && k.Kind[:6] == "their-" {
			if gotTheir[logKey{k.Kind[6:], k.ID}] == 0 {
				return violationf("%s reloaded: remote log lost "+
					"%s id=%d (%s)", name, k.Kind[6:], k.ID, n.what)
			}
			continue
		}
		if gotOwn[k] == 0 {
			return violationf("%s reloaded: local log lost %s id=%d "+
				"(%s)", name, k.Kind, k.ID, n.what)
		}
	}
	// "Already resolved" marks: an HTLC of one log is marked iff the other
	// log holds a settle/fail for it (a missing mark lets the HTLC be
	// resolved twice, a phantom mark blocks an honest settle/fail).
	wantModLocal, wantModRemote := map[uint64]bool{}, map[uint64]bool{}
	for _, e := range snap.RemoteLog {
		if e.Type == "settle" || e.Type == "fail" || e.Type == "malformed" {
			wantModLocal[e.ParentIndex] = true
		}
	}
	for _, e := range snap.LocalLog {
		if e.Type == "settle" || e.Type == "fail" || e.Type == "malformed" {
			wantModRemote[e.ParentIndex] = true
		}
	}
	cmpMod := func(which string, got []uint64, want map[uint64]bool) error {
		g := map[uint64]bool{}
		for _, id := range got {
			g[id] = true
			if !want[id] {
				return violationf("%s reloaded: HTLC %d of the %s log "+
					"is marked as already settled/failed but no "+
					"restored update resolves it", name, id, which)
			}
		}
		for id := range want {
			if !g[id] {
				return violationf("%s reloaded: a restored update "+
					"resolves HTLC %d of the %s log but the HTLC is "+
					"not marked as resolved", name, id, which)
			}
		}
		return nil
	}
	if err := cmpMod("local", snap.ModifiedLocal, wantModLocal); err != nil {
		return err
	}
	if err := cmpMod("remote", snap.ModifiedRemote, wantModRemote); err != nil {
		return err
	}

	// Every HTLC of a persisted commitment is in the matching log.
	commits := []*channeldb.ChannelCommitment{
		&fetched.LocalCommitment, &fetched.RemoteCommitment,
	}
	if diff, err := fetched.RemoteCommitChainTip(); err == nil {
		commits = append(commits, &diff.Commitment)
	}
	for _, c := range commits {
		for _, h := range c.Htlcs {
			k := logKey{"add", h.HtlcIndex}
			if h.Incoming && gotTheir[k] == 0 {
				return violationf("%s reloaded: incoming HTLC %d "+
					"of commitment h=%d missing from the remote "+
					"log", name, h.HtlcIndex, c.CommitHeight)
			}
			if !h.Incoming && gotOwn[k] == 0 {
				return violationf("%s reloaded: outgoing HTLC %d "+
					"of commitment h=%d missing from the local "+
					"log", name, h.HtlcIndex, c.CommitHeight)
			}
		}
	}

	// Forwarding packages.
	pkgs, err := fresh.LoadFwdPkgs()
	if err != nil {
		return violationf("%s reloaded: LoadFwdPkgs: %v", name, err)
	}
	if uint64(len(pkgs)) != m.RevsDelivered[y] {
		return violationf("%s reloaded: %d forwarding packages, %d "+
			"revocations were received", name, len(pkgs),
			m.RevsDelivered[y])
	}
	for i, pkg := range pkgs {
		var want *channeldb.FwdPkg
		for _, w := range s.FwdPkgs[x] {
			if w.Height == pkg.Height {
				want = w
			}
		}
		if want == nil {
			return violationf("%s reloaded: forwarding package #%d "+
				"for height %d was never handed out", name, i, pkg.Height)
		}
		if err := cmpPkg(pkg.Adds, want.Adds); err != nil {
			return violationf("%s reloaded: forwarding package h=%d "+
				"adds: %v", name, pkg.Height, err)
		}
		if err := cmpPkg(pkg.SettleFails, want.SettleFails); err != nil {
			return violationf("%s reloaded: forwarding package h=%d "+
				"settle/fails: %v", name, pkg.Height, err)
		}
	}

	return s.probeReloaded(x, fresh, snap.RemoteHtlcCounter)
}

// probeReloaded checks "the reloaded channel can continue operating" without
// writing anything: an outgoing and an incoming add are validated on the
// reloaded object, which makes lnd evaluate the complete restored update logs
// against both commitment chains (balances, add/remove heights of every
// restored entry). The adds may be refused for one of the documented
// constraint reasons; any other error means the restored state is unusable.
// The object is discarded afterwards.
func (s *Sim) probeReloaded(x int, fresh *lnwallet.LightningChannel,
	nextRemoteID uint64) error {

	amt := lnwire.MilliSatoshi(1_000_000)
	for i := 0; i < 2; i++ {
		if m := lnwire.MilliSatoshi(s.P.MinHTLC[i]); m > amt {
			amt = m
		}
	}
	h := s.P.hashN("reload-probe", len(s.Trace))
	out := &lnwire.UpdateAddHTLC{
		ChanID: s.ChanID, Amount: amt, Expiry: 510, PaymentHash: h,
	}
	if _, err := fresh.AddHTLC(out, nil); err != nil && !IsConstraintErr(err) {
		return violationf("%s reloaded: cannot continue, an outgoing add "+
			"of %d msat fails with: %v", sideName(x), amt, err)
	}
	in := &lnwire.UpdateAddHTLC{
		ChanID: s.ChanID, ID: nextRemoteID, Amount: amt, Expiry: 510,
		PaymentHash: h,
	}
	if _, err := fresh.ReceiveHTLC(in); err != nil && !IsConstraintErr(err) {
		return violationf("%s reloaded: cannot continue, an incoming add "+
			"of %d msat fails with: %v", sideName(x), amt, err)
	}
	s.label("reloaded_object_probed")

	return nil
}

func cmpPkg(got, want []channeldb.LogUpdate) error {
	if len(got) != len(want) {
		return fmt.Errorf("%d updates on disk, %d handed out", len(got),
			len(want))
	}
	for i := range got {
		if err := sameUpdate(got[i].UpdateMsg, want[i].UpdateMsg); err != nil {
			return fmt.Errorf("update %d: %v", i, err)
		}
		if got[i].LogIndex != want[i].LogIndex {
			return fmt.Errorf("update %d: log index %d on disk, %d "+
				"handed out", i, got[i].LogIndex, want[i].LogIndex)
		}
	}
	return nil
}
