//go:build verif

// Package c10ref is the independent reference used by the C10 checks: a
// BOLT-1 BigSize reader/writer and a TLV stream parser written from the
// specification text, sharing no code with lnd's tlv package (it must not
// import tlv or lnwire).
package c10ref

import (
	"encoding/binary"
	"fmt"
)

// Reason classifies why the reference rejects a stream.
type Reason string

const (
	// OK: the stream is canonical.
	OK Reason = ""

	// NonMinimal: a type or length BigSize is not minimally encoded.
	NonMinimal Reason = "nonminimal"

	// Order: a type is not strictly greater than its predecessor.
	Order Reason = "order"

	// Truncated: the stream ends inside a type, a length or a value
	// (the length exceeds the remaining bytes).
	Truncated Reason = "truncated"

	// TooLarge: a length exceeds 65535 in p2p mode.
	TooLarge Reason = "toolarge"
)

// MaxP2P is the largest record length accepted from a peer.
const MaxP2P = 65535

// Rec is one parsed record; Off..End delimit the whole record in the input,
// ValOff is where the value starts.
type Rec struct {
	Type   uint64
	Val    []byte
	Off    int
	ValOff int
	End    int
}

// ReadBigSize decodes one BigSize at the start of b.
func ReadBigSize(b []byte) (uint64, int, Reason) {
	if len(b) == 0 {
		return 0, 0, Truncated
	}
	switch b[0] {
	case 0xfd:
		if len(b) < 3 {
			return 0, 0, Truncated
		}
		v := uint64(binary.BigEndian.Uint16(b[1:3]))
		if v < 0xfd {
			return 0, 0, NonMinimal
		}

		return v, 3, OK

	case 0xfe:
		if len(b) < 5 {
			return 0, 0, Truncated
		}
		v := uint64(binary.BigEndian.Uint32(b[1:5]))
		if v < 0x10000 {
			return 0, 0, NonMinimal
		}

		return v, 5, OK

	case 0xff:
		if len(b) < 9 {
			return 0, 0, Truncated
		}
		v := binary.BigEndian.Uint64(b[1:9])
		if v < 0x100000000 {
			return 0, 0, NonMinimal
		}

		return v, 9, OK

	default:
		return uint64(b[0]), 1, OK
	}
}

// BigSizeLen is the minimal encoding width of v.
func BigSizeLen(v uint64) int {
	switch {
	case v < 0xfd:
		return 1
	case v < 0x10000:
		return 3
	case v < 0x100000000:
		return 5
	default:
		return 9
	}
}

// AppendBigSize appends the minimal encoding of v.
func AppendBigSize(dst []byte, v uint64) []byte {
	return AppendBigSizeWidth(dst, v, BigSizeLen(v))
}

// AppendBigSizeWidth appends v using the given total width (1, 3, 5 or 9);
// a width wider than necessary yields a non-minimal encoding. A width too
// narrow for v panics (harness bug).
func AppendBigSizeWidth(dst []byte, v uint64, width int) []byte {
	switch width {
	case 1:
		if v >= 0xfd {
			panic(fmt.Sprintf("c10ref: %d does not fit 1 byte", v))
		}

		return append(dst, byte(v))

	case 3:
		if v >= 0x10000 {
			panic(fmt.Sprintf("c10ref: %d does not fit 3 bytes", v))
		}
		var t [2]byte
		binary.BigEndian.PutUint16(t[:], uint16(v))

		return append(append(dst, 0xfd), t[:]...)

	case 5:
		if v >= 0x100000000 {
			panic(fmt.Sprintf("c10ref: %d does not fit 5 bytes", v))
		}
		var t [4]byte
		binary.BigEndian.PutUint32(t[:], uint32(v))

		return append(append(dst, 0xfe), t[:]...)

	case 9:
		var t [8]byte
		binary.BigEndian.PutUint64(t[:], v)

		return append(append(dst, 0xff), t[:]...)
	}
	panic("c10ref: bad width")
}

// Parse parses b as a TLV stream. On rejection the records parsed so far are
// returned together with the reason and the offset of the offending record.
func Parse(b []byte, p2p bool) ([]Rec, Reason, int) {
	var (
		recs []Rec
		pos  int
		have bool
		last uint64
	)
	for pos < len(b) {
		start := pos
		typ, n, why := ReadBigSize(b[pos:])
		if why != OK {
			return recs, why, start
		}
		pos += n
		if have && typ <= last {
			return recs, Order, start
		}
		length, n, why := ReadBigSize(b[pos:])
		if why != OK {
			return recs, why, start
		}
		pos += n
		if p2p && length > MaxP2P {
			return recs, TooLarge, start
		}
		if length > uint64(len(b)-pos) {
			return recs, Truncated, start
		}
		end := pos + int(length)
		recs = append(recs, Rec{
			Type: typ, Val: b[pos:end], Off: start, ValOff: pos,
			End: end,
		})
		pos = end
		have, last = true, typ
	}

	return recs, OK, -1
}

// AppendRecord appends one canonical record.
func AppendRecord(dst []byte, typ uint64, val []byte) []byte {
	dst = AppendBigSize(dst, typ)
	dst = AppendBigSize(dst, uint64(len(val)))

	return append(dst, val...)
}

// Encode serialises records in the given order, canonically encoded.
func Encode(recs []Rec) []byte {
	var out []byte
	for _, r := range recs {
		out = AppendRecord(out, r.Type, r.Val)
	}

	return out
}

// MinimalUint reports whether val is a valid truncated big-endian integer of
// at most max bytes (BOLT-1 tu16/tu32/tu64): no leading zero byte.
func MinimalUint(val []byte, max int) bool {
	if len(val) > max {
		return false
	}

	return len(val) == 0 || val[0] != 0
}

// FindTLVTail returns the smallest offset >= from such that b[off:] is a
// non-empty canonical p2p TLV stream, or -1. It is only used to aim
// structure-aware mutations, never as an oracle.
func FindTLVTail(b []byte, from int) (int, []Rec) {
	for off := from; off < len(b); off++ {
		recs, why, _ := Parse(b[off:], true)
		if why == OK && len(recs) > 0 {
			return off, recs
		}
	}

	return -1, nil
}
