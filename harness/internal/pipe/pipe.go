// Package pipe provides scripted in-memory byte channels for the C11
// (brontide transport) harness: a Writer that accepts a scripted number of
// bytes and then reports a timeout (so a resumable Flush is exercised), a
// Reader that hands out data in scripted chunk sizes, and a buffered duplex
// net.Conn pair with per-direction wire mutation (xor / cut) and capture.
//
// It lives only in the build overlay (mapped to /repo/internal/verif/pipe)
// and is never part of lnd itself. Nothing here reads a clock or a random
// source: every behaviour is scripted by the caller.
package pipe

import (
	"errors"
	"io"
	"net"
	"sync"
	"time"
)

// TimeoutError is the error a scripted writer returns when its budget is
// exhausted. It satisfies net.Error with Timeout() == true, which is what
// lnd's callers test for before resuming a Flush.
type TimeoutError struct{}

func (TimeoutError) Error() string   { return "pipe: scripted write timeout" }
func (TimeoutError) Timeout() bool   { return true }
func (TimeoutError) Temporary() bool { return true }

// ErrTimeout is the singleton scripted timeout.
var ErrTimeout net.Error = TimeoutError{}

// ErrWouldBlock is returned by a non-blocking Conn.Read with no data.
var ErrWouldBlock = errors.New("pipe: read would block (no data)")

// budgets is a queue of "accept this many bytes, then time out once".
type budgets struct {
	q []int
}

// take applies the queue to a write of n bytes: returns how many bytes are
// accepted and whether a timeout is reported.
func (b *budgets) take(n int) (int, bool) {
	if len(b.q) == 0 {
		return n, false
	}
	if b.q[0] < n {
		k := b.q[0]
		b.q = b.q[1:]

		return k, true
	}
	b.q[0] -= n

	return n, false
}

// Writer is an io.Writer that captures everything it accepts and follows a
// script of partial-write budgets.
type Writer struct {
	Buf      []byte
	Timeouts int
	Calls    int
	b        budgets
}

// Script replaces the budget queue. Each entry k means: accept k more bytes
// (possibly across several Write calls) and then fail one Write with a
// timeout after accepting only the remaining budget. An empty queue accepts
// everything.
func (w *Writer) Script(q ...int) { w.b.q = append(w.b.q[:0], q...) }

// Pending reports how many scripted budgets are left.
func (w *Writer) Pending() int { return len(w.b.q) }

// Write implements io.Writer.
func (w *Writer) Write(p []byte) (int, error) {
	w.Calls++
	n, to := w.b.take(len(p))
	w.Buf = append(w.Buf, p[:n]...)
	if to {
		w.Timeouts++
		return n, ErrTimeout
	}

	return n, nil
}

// Reader is an io.Reader over a byte slice that returns at most Chunk bytes
// per call (0 = unlimited), cycling through Chunks if set.
type Reader struct {
	Data   []byte
	Off    int
	Chunks []int
	i      int
	Calls  int
}

// Read implements io.Reader.
func (r *Reader) Read(p []byte) (int, error) {
	r.Calls++
	if r.Off >= len(r.Data) {
		return 0, io.EOF
	}
	n := len(p)
	if len(r.Chunks) > 0 {
		c := r.Chunks[r.i%len(r.Chunks)]
		r.i++
		if c > 0 && c < n {
			n = c
		}
	}
	if rem := len(r.Data) - r.Off; n > rem {
		n = rem
	}
	copy(p, r.Data[r.Off:r.Off+n])
	r.Off += n

	return n, nil
}

// Remaining returns the number of unread bytes.
func (r *Reader) Remaining() int { return len(r.Data) - r.Off }

type addr string

func (a addr) Network() string { return "tcp" }
func (a addr) String() string  { return string(a) }

// half is one direction of a duplex connection.
type half struct {
	mu     sync.Mutex
	cond   *sync.Cond
	buf    []byte
	closed bool

	// written counts the bytes offered by the writer (stream offset used by
	// Xor and Cut).
	written int
	// Xor maps stream offsets to masks applied on the wire.
	xor map[int]byte
	// cut >= 0: bytes at offsets >= cut are dropped and the connection is
	// closed as soon as the writer reaches that offset.
	cut int
	// hold: written bytes are captured in held instead of being delivered.
	hold bool
	held []byte
	// log of everything delivered or held (after mutation).
	wire []byte
}

func newHalf() *half {
	h := &half{cut: -1}
	h.cond = sync.NewCond(&h.mu)

	return h
}

// Conn is one end of an in-memory duplex connection. Writes never block
// (unbounded buffer); reads block until data or close unless NonBlocking is
// set. Deadlines are accepted and ignored, so no wall-clock timeout can fire.
type Conn struct {
	name  string
	peer  string
	in    *half // what we read
	out   *half // what we write
	wb    budgets
	wmu   sync.Mutex
	nb    bool
	rmax  int
	Stats struct{ Timeouts, Writes int }
}

// NewPair returns two connected ends.
func NewPair() (*Conn, *Conn) {
	ab, ba := newHalf(), newHalf()
	a := &Conn{name: "10.0.0.1:1001", peer: "10.0.0.2:9735", in: ba, out: ab}
	b := &Conn{name: "10.0.0.2:9735", peer: "10.0.0.1:1001", in: ab, out: ba}

	return a, b
}

// SetNonBlocking makes Read return ErrWouldBlock instead of waiting.
func (c *Conn) SetNonBlocking(v bool) {
	c.in.mu.Lock()
	c.nb = v
	c.in.mu.Unlock()
}

// SetReadChunk caps the number of bytes a single Read returns (0 = no cap),
// modelling a stream that arrives in small segments.
func (c *Conn) SetReadChunk(n int) {
	c.in.mu.Lock()
	c.rmax = n
	c.in.mu.Unlock()
}

// ScriptWrites sets the partial-write budget queue of this end's writes.
func (c *Conn) ScriptWrites(q ...int) {
	c.wmu.Lock()
	c.wb.q = append(c.wb.q[:0], q...)
	c.wmu.Unlock()
}

// XorOut schedules a mask for the byte at stream offset off of this end's
// outgoing stream.
func (c *Conn) XorOut(off int, mask byte) {
	c.out.mu.Lock()
	if c.out.xor == nil {
		c.out.xor = make(map[int]byte)
	}
	c.out.xor[off] ^= mask
	c.out.mu.Unlock()
}

// CutOut truncates this end's outgoing stream at offset off and closes the
// connection (both directions) once the writer reaches it.
func (c *Conn) CutOut(off int) {
	c.out.mu.Lock()
	c.out.cut = off
	c.out.mu.Unlock()
}

// HoldOut captures this end's outgoing bytes instead of delivering them.
func (c *Conn) HoldOut(v bool) {
	c.out.mu.Lock()
	c.out.hold = v
	c.out.mu.Unlock()
}

// TakeHeld returns and clears the captured outgoing bytes.
func (c *Conn) TakeHeld() []byte {
	c.out.mu.Lock()
	defer c.out.mu.Unlock()
	h := c.out.held
	c.out.held = nil

	return h
}

// Inject appends raw bytes to this end's inbox.
func (c *Conn) Inject(p []byte) {
	c.in.mu.Lock()
	c.in.buf = append(c.in.buf, p...)
	c.in.cond.Broadcast()
	c.in.mu.Unlock()
}

// Unread returns the number of bytes waiting in this end's inbox.
func (c *Conn) Unread() int {
	c.in.mu.Lock()
	defer c.in.mu.Unlock()

	return len(c.in.buf)
}

// WireOut returns a copy of everything this end has put on the wire.
func (c *Conn) WireOut() []byte {
	c.out.mu.Lock()
	defer c.out.mu.Unlock()

	return append([]byte(nil), c.out.wire...)
}

// WireLen returns the number of bytes this end has put on the wire.
func (c *Conn) WireLen() int {
	c.out.mu.Lock()
	defer c.out.mu.Unlock()

	return len(c.out.wire)
}

// WireTail returns a copy of this end's wire bytes from offset from.
func (c *Conn) WireTail(from int) []byte {
	c.out.mu.Lock()
	defer c.out.mu.Unlock()

	return append([]byte(nil), c.out.wire[from:]...)
}

// Read implements net.Conn.
func (c *Conn) Read(p []byte) (int, error) {
	h := c.in
	h.mu.Lock()
	defer h.mu.Unlock()
	for len(h.buf) == 0 {
		if h.closed {
			return 0, io.EOF
		}
		if c.nb {
			return 0, ErrWouldBlock
		}
		h.cond.Wait()
	}
	if c.rmax > 0 && len(p) > c.rmax {
		p = p[:c.rmax]
	}
	n := copy(p, h.buf)
	h.buf = h.buf[n:]

	return n, nil
}

// Write implements net.Conn.
func (c *Conn) Write(p []byte) (int, error) {
	c.wmu.Lock()
	n, to := c.wb.take(len(p))
	c.Stats.Writes++
	if to {
		c.Stats.Timeouts++
	}
	c.wmu.Unlock()

	h := c.out
	h.mu.Lock()
	if h.closed {
		h.mu.Unlock()
		return 0, io.ErrClosedPipe
	}
	data := append([]byte(nil), p[:n]...)
	for i := range data {
		if m, ok := h.xor[h.written+i]; ok {
			data[i] ^= m
		}
	}
	doCut := false
	if h.cut >= 0 && h.written+len(data) >= h.cut {
		keep := h.cut - h.written
		if keep < 0 {
			keep = 0
		}
		data = data[:keep]
		doCut = true
	}
	h.written += n
	h.wire = append(h.wire, data...)
	if h.hold {
		h.held = append(h.held, data...)
	} else {
		h.buf = append(h.buf, data...)
	}
	if doCut {
		// Close the outgoing direction in the same critical section so
		// no later write of this end can slip through.
		h.closed = true
	}
	h.cond.Broadcast()
	h.mu.Unlock()

	if doCut {
		_ = c.Close()
		// The writer itself saw a successful write: the bytes vanished on
		// the wire.
	}
	if to {
		return n, ErrTimeout
	}

	return n, nil
}

// Close closes both directions and wakes blocked readers.
func (c *Conn) Close() error {
	for _, h := range []*half{c.in, c.out} {
		h.mu.Lock()
		h.closed = true
		h.cond.Broadcast()
		h.mu.Unlock()
	}

	return nil
}

// Closed reports whether the connection was closed by either end.
func (c *Conn) Closed() bool {
	c.in.mu.Lock()
	defer c.in.mu.Unlock()

	return c.in.closed
}

func (c *Conn) LocalAddr() net.Addr                { return addr(c.name) }
func (c *Conn) RemoteAddr() net.Addr               { return addr(c.peer) }
func (c *Conn) SetDeadline(t time.Time) error      { return nil }
func (c *Conn) SetReadDeadline(t time.Time) error  { return nil }
func (c *Conn) SetWriteDeadline(t time.Time) error { return nil }

var _ net.Conn = (*Conn)(nil)
