// Package bigref is an exact, unbounded-integer (math/big) reference for the
// rules lnd applies when it decides whether an HTLC may be forwarded over a
// channel (BOLT-7 fee schedule, inbound fees/discounts, BOLT-2/BOLT-4 expiry
// windows, min/max HTLC and bandwidth limits).
//
// It is written from the documented rules, not from lnd's code, and never
// uses fixed-width arithmetic in a comparison: every rule is evaluated on
// *big.Int values, so it is the "what would the answer be if integers could
// not wrap" side of a differential check.
//
// It lives only in the verification build overlay (import path
// github.com/lightningnetwork/lnd/internal/verif/bigref) and imports nothing
// but the standard library, so it can be used from any lnd package
// (htlcswitch for property C09, routing for property C19).
//
// # Rules
//
// A forward of (incoming amount, outgoing amount, incoming expiry, outgoing
// expiry) at block height h over an outgoing channel with Policy p and
// Limits l, charged InboundFee f by the incoming channel, is acceptable iff
// none of the following rules is violated (all arithmetic exact):
//
//	RuleAmountOrder   outgoing amount <= incoming amount
//	RuleFee           incoming - outgoing >= OutboundFee + InboundFeeOn(outgoing+OutboundFee)
//	RuleMinHTLC       outgoing amount >= p.MinHTLC
//	RuleMaxHTLC       p.MaxHTLC == 0 (no limit)  or  outgoing amount <= p.MaxHTLC
//	RuleBandwidth     outgoing amount <= l.Bandwidth
//	RuleExpiryTooSoon outgoing expiry >  h + l.RejectDelta
//	RuleExpiryTooFar  outgoing expiry <= h + l.MaxCltv
//	RuleCltvDelta     incoming expiry - outgoing expiry >= p.TimeLockDelta
//	RuleCltvGapMax    incoming expiry - outgoing expiry <= l.MaxCltv
//
// A locally originated HTLC ("transit": there is no incoming HTLC) is
// subject to MinHTLC, MaxHTLC, Bandwidth, ExpiryTooSoon and ExpiryTooFar only.
//
// # Fee schedule
//
//	OutboundFee(amt)  = BaseFee + floor(amt * FeeRate / 1e6)
//	InboundFeeOn(x)   = Base + trunc(clamp(Rate) * x / 1e6)
//
// where trunc rounds toward zero (lnd: "positive fees are rounded down while
// negative fees are rounded up") and clamp limits the rate to +-10 * 1e6
// (lnd: "a variable fee component of up to 10x the payment amount"). The two
// components are rounded separately and then added. The sum may be negative
// (a discount larger than the outbound fee); RuleAmountOrder then still
// forbids forwarding more than was received.
package bigref

import (
	"math/big"
	"strings"
)

// Rule identifies one forwarding rule. Values are single bits so that a set
// of rules is a RuleSet bit mask.
type Rule uint16

const (
	// RuleAmountOrder: the outgoing amount exceeds the incoming amount.
	RuleAmountOrder Rule = 1 << iota

	// RuleFee: incoming - outgoing is less than the required total fee
	// (outbound fee plus inbound fee or discount).
	RuleFee

	// RuleMinHTLC: the outgoing amount is below the policy minimum.
	RuleMinHTLC

	// RuleMaxHTLC: the outgoing amount is above the (non-zero) policy
	// maximum.
	RuleMaxHTLC

	// RuleBandwidth: the outgoing amount is above the spendable bandwidth
	// of the outgoing channel.
	RuleBandwidth

	// RuleExpiryTooSoon: the outgoing expiry is not more than RejectDelta
	// blocks above the current height.
	RuleExpiryTooSoon

	// RuleExpiryTooFar: the outgoing expiry is more than MaxCltv blocks
	// above the current height.
	RuleExpiryTooFar

	// RuleCltvDelta: the incoming expiry is not at least TimeLockDelta
	// blocks above the outgoing expiry.
	RuleCltvDelta

	// RuleCltvGapMax: the incoming expiry is more than MaxCltv blocks
	// above the outgoing expiry.
	RuleCltvGapMax
)

// NumRules is the number of distinct rules.
const NumRules = 9

// AllRules lists every rule in bit order; AllRules[i] == 1<<i.
var AllRules = [NumRules]Rule{
	RuleAmountOrder, RuleFee, RuleMinHTLC, RuleMaxHTLC, RuleBandwidth,
	RuleExpiryTooSoon, RuleExpiryTooFar, RuleCltvDelta, RuleCltvGapMax,
}

// ForwardRules is the set of rules that apply to a forwarded HTLC.
const ForwardRules = RuleSet(1<<NumRules - 1)

// TransitRules is the set of rules that apply to a locally originated HTLC.
const TransitRules = RuleSet(RuleMinHTLC | RuleMaxHTLC | RuleBandwidth |
	RuleExpiryTooSoon | RuleExpiryTooFar)

var ruleNames = [NumRules]string{
	"amount_order", "fee", "min_htlc", "max_htlc", "bandwidth",
	"expiry_too_soon", "expiry_too_far", "cltv_delta", "cltv_gap_max",
}

// Index returns i such that r == AllRules[i], or -1 if r is not a single
// rule.
func (r Rule) Index() int {
	for i, x := range AllRules {
		if x == r {
			return i
		}
	}

	return -1
}

// String returns a short stable name ("fee", "min_htlc", ...).
func (r Rule) String() string {
	if i := r.Index(); i >= 0 {
		return ruleNames[i]
	}

	return "invalid_rule"
}

// RuleSet is a set of rules (bit mask of Rule values).
type RuleSet uint16

// Has reports whether r is in the set.
func (s RuleSet) Has(r Rule) bool { return uint16(s)&uint16(r) != 0 }

// Empty reports whether no rule is in the set.
func (s RuleSet) Empty() bool { return s == 0 }

// With returns the set with r added.
func (s RuleSet) With(r Rule) RuleSet { return s | RuleSet(r) }

// Intersects reports whether the two sets share a rule.
func (s RuleSet) Intersects(o RuleSet) bool { return s&o != 0 }

// Len returns the number of rules in the set.
func (s RuleSet) Len() int {
	n := 0
	for _, r := range AllRules {
		if s.Has(r) {
			n++
		}
	}

	return n
}

// Rules returns the members in bit order.
func (s RuleSet) Rules() []Rule {
	var out []Rule
	for _, r := range AllRules {
		if s.Has(r) {
			out = append(out, r)
		}
	}

	return out
}

// String renders the set as "{fee,min_htlc}".
func (s RuleSet) String() string {
	var parts []string
	for _, r := range s.Rules() {
		parts = append(parts, r.String())
	}

	return "{" + strings.Join(parts, ",") + "}"
}

// Policy is the advertised forwarding policy of the outgoing channel. Amounts
// are millisatoshi, FeeRate is parts per million of the outgoing amount.
type Policy struct {
	// MinHTLC is the smallest outgoing amount that is forwarded.
	MinHTLC uint64

	// MaxHTLC is the largest outgoing amount that is forwarded; zero
	// means "no maximum".
	MaxHTLC uint64

	// BaseFee is the fixed part of the outbound fee.
	BaseFee uint64

	// FeeRate is the proportional part of the outbound fee in ppm.
	FeeRate uint64

	// TimeLockDelta is the minimum incoming-minus-outgoing expiry gap.
	TimeLockDelta uint32
}

// InboundFee is the fee (positive) or discount (negative) the incoming
// channel charges on top of the outbound fee. Base is millisatoshi, Rate ppm.
type InboundFee struct {
	Base int32
	Rate int32
}

// Limits are the node-local, non-advertised bounds of the outgoing channel.
type Limits struct {
	// RejectDelta: the outgoing expiry must exceed height + RejectDelta.
	RejectDelta uint32

	// MaxCltv: the outgoing expiry must not exceed height + MaxCltv, and
	// the incoming-minus-outgoing gap must not exceed MaxCltv.
	MaxCltv uint32

	// Bandwidth is the spendable balance of the outgoing channel.
	Bandwidth uint64
}

// Forward describes one forwarding request.
type Forward struct {
	IncomingAmt    uint64
	OutgoingAmt    uint64
	IncomingExpiry uint32
	OutgoingExpiry uint32
	Height         uint32
	Inbound        InboundFee
}

const (
	// FeeRateParts is the denominator of proportional fee rates.
	FeeRateParts = 1_000_000

	// MaxInboundRate is the magnitude at which the inbound fee rate is
	// clamped (10x the amount).
	MaxInboundRate = 10 * FeeRateParts
)

var bigParts = big.NewInt(FeeRateParts)

func u64(v uint64) *big.Int { return new(big.Int).SetUint64(v) }

// OutboundFee returns base + floor(amt*ratePPM/1e6), exactly.
func OutboundFee(base, ratePPM, amt uint64) *big.Int {
	f := new(big.Int).Mul(u64(amt), u64(ratePPM))
	f.Quo(f, bigParts) // operands are non-negative: Quo == floor
	return f.Add(f, u64(base))
}

// ClampInboundRate returns the rate limited to [-MaxInboundRate,
// MaxInboundRate].
func ClampInboundRate(rate int32) int64 {
	r := int64(rate)
	switch {
	case r > MaxInboundRate:
		return MaxInboundRate
	case r < -MaxInboundRate:
		return -MaxInboundRate
	}

	return r
}

// InboundFeeOn returns the inbound fee charged on amount x (x is the outgoing
// amount plus the outbound fee): Base + trunc(clamp(Rate)*x/1e6), where trunc
// rounds toward zero. The result may be negative. x must be non-negative.
func InboundFeeOn(f InboundFee, x *big.Int) *big.Int {
	p := new(big.Int).Mul(big.NewInt(ClampInboundRate(f.Rate)), x)
	p.Quo(p, bigParts) // big.Int.Quo truncates toward zero
	return p.Add(p, big.NewInt(int64(f.Base)))
}

// RequiredFee returns the exact total fee a forward of outAmt must carry:
// OutboundFee(outAmt) + InboundFeeOn(outAmt + OutboundFee(outAmt)). It may be
// negative when the inbound discount exceeds the outbound fee.
func RequiredFee(p Policy, f InboundFee, outAmt uint64) *big.Int {
	out := OutboundFee(p.BaseFee, p.FeeRate, outAmt)
	x := new(big.Int).Add(u64(outAmt), out)
	in := InboundFeeOn(f, x)

	return in.Add(in, out)
}

// MinIncoming returns the smallest incoming amount that satisfies both
// RuleAmountOrder and RuleFee for outAmt: outAmt + max(0, RequiredFee).
func MinIncoming(p Policy, f InboundFee, outAmt uint64) *big.Int {
	req := RequiredFee(p, f, outAmt)
	if req.Sign() < 0 {
		req.SetInt64(0)
	}

	return req.Add(req, u64(outAmt))
}

// Verdict is the result of evaluating every rule.
type Verdict struct {
	// Violated is the set of rules that do not hold.
	Violated RuleSet

	// Margin[i] is the signed slack of rule AllRules[i]: the rule holds
	// iff Margin[i] >= 0, and |Margin[i]| is the distance (in msat or
	// blocks) from the point where the verdict of that rule flips.
	// Margin[i] is nil for a rule that does not apply (transit rules
	// other than TransitRules; RuleMaxHTLC when MaxHTLC == 0).
	Margin [NumRules]*big.Int
}

// OK reports whether no rule is violated.
func (v *Verdict) OK() bool { return v.Violated.Empty() }

// MarginOf returns the margin of r (nil if it does not apply).
func (v *Verdict) MarginOf(r Rule) *big.Int { return v.Margin[r.Index()] }

// Near returns the rules whose margin is within +-dist of zero, i.e. whose
// individual verdict sits at most dist units from flipping.
func (v *Verdict) Near(dist int64) RuleSet {
	var s RuleSet
	d := big.NewInt(dist)
	for i, m := range v.Margin {
		if m != nil && new(big.Int).Abs(m).Cmp(d) <= 0 {
			s = s.With(AllRules[i])
		}
	}

	return s
}

func (v *Verdict) set(r Rule, margin *big.Int) {
	v.Margin[r.Index()] = margin
	if margin.Sign() < 0 {
		v.Violated = v.Violated.With(r)
	}
}

func sub(a, b *big.Int) *big.Int { return new(big.Int).Sub(a, b) }

// checkOutgoing evaluates the five rules shared by forwards and transits.
func checkOutgoing(v *Verdict, p Policy, l Limits, amt uint64, expiry,
	height uint32) {

	a := u64(amt)
	v.set(RuleMinHTLC, sub(a, u64(p.MinHTLC)))
	if p.MaxHTLC != 0 {
		v.set(RuleMaxHTLC, sub(u64(p.MaxHTLC), a))
	}
	v.set(RuleBandwidth, sub(u64(l.Bandwidth), a))

	e := u64(uint64(expiry))
	h := u64(uint64(height))

	// expiry > height + RejectDelta  <=>  expiry - height - RejectDelta - 1 >= 0
	soon := sub(e, h)
	soon.Sub(soon, u64(uint64(l.RejectDelta)))
	soon.Sub(soon, big.NewInt(1))
	v.set(RuleExpiryTooSoon, soon)

	// expiry <= height + MaxCltv
	far := new(big.Int).Add(h, u64(uint64(l.MaxCltv)))
	far.Sub(far, e)
	v.set(RuleExpiryTooFar, far)
}

// CheckTransit evaluates the rules for a locally originated HTLC of amt with
// the given expiry at the given height.
func CheckTransit(p Policy, l Limits, amt uint64, expiry,
	height uint32) Verdict {

	var v Verdict
	checkOutgoing(&v, p, l, amt, expiry, height)

	return v
}

// CheckForward evaluates every rule for the forwarding request f over an
// outgoing channel with policy p and limits l.
func CheckForward(p Policy, l Limits, f Forward) Verdict {
	var v Verdict

	in := u64(f.IncomingAmt)
	out := u64(f.OutgoingAmt)
	actual := sub(in, out)
	v.set(RuleAmountOrder, new(big.Int).Set(actual))
	v.set(RuleFee, sub(actual, RequiredFee(p, f.Inbound, f.OutgoingAmt)))

	checkOutgoing(&v, p, l, f.OutgoingAmt, f.OutgoingExpiry, f.Height)

	gap := sub(u64(uint64(f.IncomingExpiry)), u64(uint64(f.OutgoingExpiry)))
	v.set(RuleCltvDelta, sub(gap, u64(uint64(p.TimeLockDelta))))
	v.set(RuleCltvGapMax, sub(u64(uint64(l.MaxCltv)), gap))

	return v
}
